#!/usr/bin/env python3
"""regenerate MANIFEST.json from the table below (keeps it valid at all times)"""
import json
import os

HERE = os.path.dirname(os.path.dirname(os.path.abspath(__file__)))

A = "mcx: deviation-bounded stateless exploration of the real connection/server code under a harness-owned clock, network and random source"
B = "bfs: explicit-state breadth-first search over operation sequences of the real object with canonical state hashing, reference model in lock-step"
C = "enum: bounded-exhaustive enumeration of an input grammar against an independent reference"

CHECKS = {
    "C17": dict(
        engine="enum", category="exploration", design="5/C17",
        technique="bounded-exhaustive enumeration (small-scope) of every (root, name) over an adversarial segment alphabet + all router captures; containment oracle on the returned string",
        text="Every name of the stated grammar (prefix x <=3/5 segments over 13 adversarial segments x both separators x 7 roots, ~1e6 quick / ~4e7 thorough) and every :path* capture of the real Router is evaluated; exhaustive within that grammar, nothing sampled. Right level because the function is pure and its input space is a small grammar.",
        note="POSIX os.path; names outside the alphabet (other unicode, longer paths) are not covered"),
    "C04": dict(
        engine="mcx", category="model_checking", design="5/C04",
        technique="stateless deviation-bounded exploration (<=2 network deviations: drop/dup/delay/replay of any recorded datagram) of the real client+server stack under a virtual clock; reference-model monitor (multiset of sent payloads, set of accepted datagrams)",
        text="All executions with <=2 deviations (thorough: 3 on a sub-set) over ~100 (quick) / ~300 (thorough) program configurations (direction x retry mode x single/fragmented x macro step moving the 32-datagram or 256-message window x ack blackout x round-trip time x frame length x keep-alive interval), with replay points indexed by the receiver's lag (1, 31, 32, 33 / every lag to 40), are run on the implementation; every delivery is checked against the multiset sent and every byte-identical copy of an accepted datagram must be dropped whole (full state snapshot compare).",
        note="payload contents from a marker family; <=2 independent network faults per execution (macro faults make the window-moving histories reachable); crypto primitives trusted"),
    "C05": dict(
        engine="mcx", category="model_checking", design="5/C05",
        technique="stateless deviation-bounded exploration of the real stack: boundary payload lengths x MTU x API x direction with every single datagram loss, plus <=2 deviations (drop/dup/delay) and blackouts on representative sizes; bounded-liveness oracle on a healed network",
        text="Every boundary length (around P, P-6, k*F, k*F+P-6) for 4 (quick) / 11 (thorough) MTUs through the four guaranteed-send APIs, honest and with each single loss in the first rounds; representative sizes under all <=2-deviation schedules (thorough: 3 on a sub-set) and 6 blackout shapes with concurrent traffic, a 300-message burst behind the guaranteed message, a second fragmented guaranteed message in flight during a 3 s outage, RTT above the resend interval, 60 Hz frames and a 0.5 s keep-alive/resend interval. Delivery must happen within 6 virtual seconds of the network healing while both ends stay CONNECTED.",
        note="liveness is bounded by a horizon (6 s + fragment count); lengths between the boundaries and MTUs not listed are not run in quick; tick 1/64 s"),
    "C07": dict(
        engine="mcx", category="model_checking", design="5/C07",
        technique="stateless deviation-bounded exploration (<=2 of drop/dup/delay 2,8,70 ticks on any data or ack datagram; blackout and long-frame parameters) of the real stack; monitor with virtual timestamps relating every callback to the peer's delivery log and to the send time",
        text="All <=2-deviation schedules (thorough: 3 on a sub-set) over ~86 (quick) / ~700 (thorough) configurations of direction x retry mode x single/fragmented x ack/data blackout x owner stall x round-trip time (above the resend interval) x staggered second send x 60 Hz frames x keep-alive interval x bidirectional traffic, plus a 45-datagram stream at 1/50 s frames with withheld acks; cb(True) is checked against the peer application's delivery log at that instant, cb(False) against the timeout, callback counts at quiescence, and assembled == acked + timeouts + pending at every tick on both ends.",
        note="forged/stale ack fields are covered by C01/C04 (they are rejected before ack processing); <=2 deviations; timeout 1.0 s"),
    "C16": dict(
        engine="enum", category="exploration", design="5/C16",
        technique="bounded-exhaustive enumeration of (pattern, path) over the documented grammar against a reference matcher on segment lists; ordered route-table pairs through Router.dispatch",
        text="All 1249 patterns (<=4 segments, optional final ?,+,*) x all paths of <=4 (quick) / 5 (thorough) segments over an alphabet with prefix/extension/dot look-alikes, empty segments and trailing slashes: match verdict, bound values, no-empty-:name; plus every ordered pair of small patterns in one table / across two methods through dispatch (first match, method separation, 404).",
        note="paths containing '//' are UNSPECIFIED for the match verdict (documentation silent); alphabets are small-scope"),
    "C13": dict(
        engine="enum", category="exploration", design="5/C13",
        technique="bounded-exhaustive enumeration of a value grammar (depth<=3/4, width<=2/3) with structural-equality oracle, double encoding + trailer for self-delimitation, out-of-domain refusal list",
        text="Every value of the grammar (all int width boundaries of both signs, float specials, utf-8/NUL/127-129-byte strings, enums, lists/tuples/sets/dicts/classes nested to depth 3, thorough depth 4; 2.6e4 quick / 3.6e5 thorough values) is round-tripped, decoded from a doubled stream with a trailer, and 21 out-of-domain values must be refused.",
        note="structural equality defined by the check (tuples==lists, float32 precision, nan==nan, bool!=int); values outside the grammar not covered"),
    "C14": dict(
        engine="enum", category="exploration", design="5/C14",
        technique="bounded-exhaustive enumeration of hostile inputs (all truncations and bit flips of a corpus, all token sequences up to length 4/5, crafted nesting/length bombs) under a deterministic call-count meter and tracemalloc bound",
        text="3.6e6 (quick) inputs: every prefix and single-bit flip of every small valid encoding and of the three handshake messages (also through the real _recvClientHello/_recvChallengeResponse/_recvServerHello), every sequence of <=4 tokens over 33 tokens at the length limits, ~400 crafted inputs; each must finish within 64*len+512 interpreter calls (observed max 12.3/byte), stay under 64*len+1MiB, and end in a value of supported/registered types or an ordinary exception.",
        note="work measured in call events, memory by tracemalloc on the crafted family only; MemoryError and non-Exception escapes are violations; RecursionError is ordinary"),
    "C15": dict(
        engine="enum", category="exploration", design="5/C15",
        technique="bounded-exhaustive enumeration of annotated class shapes x value alphabets through fromJson(toJson(x)) and loads(dumps(x)); structural equality including container types",
        text="61 single-field annotation shapes (basic, nested, enum, List/Set/Tuple/Dict with int/str/enum keys) with complete small value alphabets, all 3721 ordered pairs of shapes in one class (field interaction) and a three-level nesting: 2.3e4 (quick) / 2.1e5 (thorough) objects; also plain-data and json.dumps acceptance of toJson output.",
        note="values from small per-type alphabets; fields hold values of their annotated types; None only for container fields"),
    "C19": dict(
        engine="enum", category="exploration", design="5/C19",
        technique="bounded-exhaustive enumeration: all ordered password pairs over a 3-symbol alphabet up to length 2/3, every single-site corruption of hash strings (reference encoder with cheap scrypt parameters + one real hash)",
        text="All ordered pairs (p, q) of the 13 (quick) / 40 (thorough) byte strings over {a,b,NUL}: verify(q, hash(p)) == (p==q); two hashes per password differ in salt; 11 near-identical/long pairs; ~2000 corruptions (every truncation, field removal/duplication, per-character replace/delete/insert/non-base64, parameter, method, version edits) must raise ValueError/TypeError or return False.",
        note="weakest reading of 'malformed': a damaged string that still denotes exactly the original (method, version, parameters, salt, digest) may verify; scrypt/sha256 trusted"),
    "C20": dict(
        engine="bfs", category="model_checking", design="5/C20",
        technique="explicit-state BFS over operation sequences of the real Server/ClientMessageDispatcher with a dict reference model in lock-step; the registration map is observed through dispatch() after every operation; closed state graph",
        text="18 operations (register/unregister of 5 resources incl. string annotations and two partial-conflict shapes, dispatch of 4 classes incl. an unregistered subclass, register_function by class/name, unregister_function) from every reachable state: the state graph closes (65 states per dispatcher, all 65x18 transitions executed on the implementation), so every operation sequence of any length over this alphabet is covered.",
        note="alphabet of 5 resources / 4 message classes; partial effect of a refused registration and unregister of an unregistered resource are left open (observed outcome adopted within the allowed set)"),
    "C08": dict(
        engine="enum+bfs+mcx", category="model_checking", design="5/C08",
        technique="exhaustive enumeration of all 65535 ring values x offset set (SeqNum); explicit-state BFS over BitField insertion histories (widths 8/16/32/256, three start positions incl. the wrap) against a set-based reference; wire ack-field monitor inside deviation-bounded exploration of the real stack",
        text="SeqNum: every a in 1..65535 x 44 (quick) / 1143 (thorough) offsets up to half the ring, both directions, all comparison operators, successor chain over two laps. BitField: BFS hashed on (newest, bits), contains() compared on the whole +-(w+3) neighbourhood after every insert. Wire: every header emitted in every <=2-deviation execution must name exactly the accepted peer datagrams among the newest 32.",
        note="offsets thinned (not all 32767) per value; BitField depth bounded (5/4/4/3 quick); wire part <=2 deviations"),
    "C09": dict(
        engine="enum+mcx", category="exploration", design="5/C09",
        technique="bounded-exhaustive enumeration of header fields x message lists x {CRC, GCM} through the real codec; exhaustive enumeration of short send() sequences over boundary lengths x retry modes x MTUs, and of 254..300-message bursts, executed on the real client and both server send paths over a perfect virtual network",
        text="Codec: 4.3e5 (quick) / 2.2e6 packets: exact round trip, length/count exactness, datagram length, total_size, direction enforcement. Packing: every sequence of <=2 (quick) / 3 send() calls over 9 boundary lengths per retry mode plus mixed-mode triples and bursts, for 4 / 12 MTUs on UdpClient.update, TwistedServer.sendPacketsUnsafe and UdpServerThread.send: datagram <= MTU-28, no exception, nothing lost, fit-together.",
        note="no network faults in the packing part (C05/C06 cover those); lengths from the boundary set only; MTUs listed"),
    "C18": dict(
        engine="enum+bfs", category="model_checking", design="5/C18",
        technique="exhaustive enumeration of all segmentations (2^(N-1) for N<=18 bytes, <=2/3 cuts for longer streams) of sequences of 1-3 client frames fed to the real WebSocketTemporaryHandler; frame writer/reader enumerated over opcodes x mask x boundary lengths against an independent RFC 6455 codec",
        text="348 frame sequences x every way of cutting the byte stream into reads (3.5e6 segmentations quick): the endpoint must see every frame once, in order, unmasked, and no read may raise; first segmentation of each sequence also through HTTPFactory's Channel.dataReceived. Codec: 16 (quick) / ~3900 (thorough) payload lengths incl. 125/126/127 and 65535/65536 x 5 opcodes x mask 0/1 x keys.",
        note="frames with fin=0 (message fragmentation) are outside the statement; client frames come from the reference encoder"),
    "C06": dict(
        engine="enum+bfs+mcx", category="model_checking", design="5/C06",
        technique="exhaustive enumeration of every payload length 0..3P+20 x MTUs x 3 contents through the real split/reassembly code; all permutations and single duplications of the datagrams of 10 message sets at a fresh receiver; deviation-bounded exploration (<=2 of drop/dup/delay + blackouts) of two fragmented messages in flight on the real stack",
        text="Lengths: 3.6e4 (quick, 4 MTUs) / 1.2e5 (14 MTUs) cases incl. all-zero and header-look-alike contents, single-datagram rule, fragment size, limit and limit+1. Orders: 6.5e3 arrival orders. Faults: 4.7e3 (quick) executions; every delivery checked byte-for-byte against the multiset sent (no fabrication, no duplication), lossless runs must deliver everything.",
        note="peer assumed honest (authenticated); <=2 deviations in the fault part"),
    "C01": dict(
        engine="mcx", category="model_checking", design="5/C01",
        technique="fault-family exploration at scripted protocol points of the real stack: every element of a structured attacker family (forged plaintext+CRC over all types x counts x inner types, all bit flips/truncations/extensions/header rewrites of genuine unreceived datagrams, wrong-key and foreign-session ciphertext) injected through the real entry points with complete before/after state snapshots; positive control with the genuine datagrams",
        text="9 protocol points (client: connecting, idle, busy with pending sends+half-received fragment, disconnected; server: new address, temp pool, idle, busy, after disconnect) x 5.2e4 (quick) / 1.2e5 (thorough) structured injections via UdpClient.update and TwistedServer.datagramReceived + the real server loop; any change of key, status, liveness clock, windows, pending acks/callbacks/retries, delivered messages, pools, handler events or bytes sent is a violation; genuine datagrams must still be accepted afterwards.",
        note="single injections (no pairs); cryptographic strength of AES-GCM assumed; random-bytes supplement (8640, seeded) listed separately and not part of the exhaustive claim"),
    "C02": dict(
        engine="mcx", category="model_checking", design="5/C02",
        technique="man-in-the-middle exploration of the real handshake: one fresh real handshake per substitution (every byte position x xor masks x CRC fix-up of all three datagrams; field-level forgeries from attacker keys and another honest session; wrong-token challenge responses), plus deviation-bounded exploration (<=2/3 of drop/dup/delay) of one and two concurrent handshakes with cross-delivery; oracles recompute signature verification, ECDH+HKDF and AES-GCM with the cryptography primitives directly",
        text="2.1e3 (quick) / 3.2e3 byte mutants, 123 forgeries, 17 post-handshake injections (no end may give up the agreed key/token), 2.7e3 (quick) schedule executions. (a) a client with a key or CONNECTED must have processed a hello whose payload verifies under the pinned key and whose parameters it adopted exactly; (b) honest runs agree on one 16-byte key and token; (c) every connect event is preceded by a datagram from that address that decrypts under the connection's key and carries the issued token.",
        note="cryptographic primitives trusted; <=2 (quick) / 3 deviations in the schedule part; replay of a genuinely signed hello of another session is allowed by the statement"),
    "C03": dict(
        engine="mcx", category="model_checking", design="5/C03",
        technique="deviation-bounded exploration (<=1 network deviation) of every send program of <=2/3 steps from three start states (fresh, counters preset 5 below the 16-bit wrap, reduced 63-value ring that wraps within every history) on the real stack; monitor on every emitted datagram: per-key nonce table, reference AES-GCM decryption with the full 20-byte header as AAD, plaintext marker search",
        text="384 (quick) / ~3500 (thorough) configurations x all single deviations (2.0e4 executions, 3.4e6 ticks quick): no two encrypted datagrams of a session share bytes 0-11; every datagram emitted by a keyed endpoint except SERVER_HELLO decrypts under the session key with the whole header authenticated; the application marker never appears on the wire. Thorough adds one honest 140000-frame history that really wraps the 16-bit counter.",
        note="non-decreasing clock and at most one update per frame assumed (the statement's premises); the reduced ring is used for this monitor only, argument in the module docstring and DESIGN.md"),
    "C12": dict(
        engine="mcx", category="model_checking", design="5/C12",
        technique="explicit-state exploration of the idle real stack per configuration with a canonical state on ages and relative sequence numbers until the state graph closes (cycle), exhaustive frame-jitter sequences (2^10), every cut phase of a keep-alive period, every subset x order x before/after split of the client setters and orders of the ServerContext setters, with timing oracles on the virtual clock",
        text="38 (quick) / 45 idle configurations (5 keep-alive intervals x 2 timeouts x 5 frame lengths): 30 close into a cycle (proof of 'stays up indefinitely' under uniform dyadic frames), the 1/60 s rows are run to a 20/60 s horizon; 6144 jitter executions; 67 cut cases (server disconnect within one tick after the timeout, client DROPPED within one frame after 5 s); 24 unanswered-connect cases (timeout set before / right after connect()); 106 client-setter cases (every subset x order x before / during the handshake / after connect) and 3/120 server-setter orders, each with the effect observed.",
        note="'one send tick' read leniently (smallest multiple of the frame exceeding send_interval); relative-sequence hashing relies on C08; no network faults other than cuts"),
    "C10": dict(
        engine="mcx", category="model_checking", design="5/C10",
        technique="deviation-bounded exploration (<=2 deviations from a menu of ~50 kinds at 10/36 tick positions) of the real server loop thread under a baton scheduler with two real clients, same-address reconnects, an authenticated malicious client, handler exceptions/re-entrant calls, shutdown and enumerated token-generator collisions; per-object lifecycle automaton as monitor",
        text="5.1e4 (quick) executions of a two-client run with shutdown: connect once and only after the handshake (session key matched against the harness's client sessions), handle_message only while connected and only with that client's own tagged payloads, disconnect exactly once (peer disconnect, silence timeout, server-side disconnect, shutdown), nothing for never-connected objects, one thread id, shutdown is the single last event, probes still delivered after handler exceptions, tokens of connected clients pairwise distinct, server thread never dies.",
        note="two addresses (+ reconnects); <=2 deviations; lock-protected queue hand-off between reactor and server thread treated as atomic (fake lock)"),
    "C11": dict(
        engine="mcx", category="model_checking", design="5/C11",
        technique="fault-family exploration on the real stack with an honest echo client: every element of a structured hostile-datagram family (body kind x type byte x count x length field x magic x CRC, damaged hellos, serializer bombs, raw lengths up to RECV_SIZE) from four kinds of source address x block lists x MTUs, injected through TwistedServer.datagramReceived and through the real _UdpServer.run receive loop (fake socket module, second baton thread), one real server-loop iteration each, with per-injection oracles; pairs; a flood of hellos from 2000/6000 addresses",
        text="7.5e4 (quick) injections in 108 worlds: after every single datagram the server thread (and the receiver thread) must be alive, the honest client's server-side connection unchanged (full snapshot) and its echo round trip still completing, a block-listed source must leave no queue entry, pool entry, handler event or reply, and for every address outside the connected pool bytes sent <= bytes received at every instant.",
        note="lock-protected queue hand-off treated as atomic; random supplement (1.5e4, seeded) listed separately; Twisted's reactor and real sockets are replaced by fakes"),
}

# additions of the second round (waves 23/24), appended to the level text of each check
EXTRA = {
    "C01": " Also the target's own datagrams reflected unchanged.",
    "C02": " Plus every 3-event history of forged hellos (original / fresh numbers) and silences of 0.5 / 2.5 / 6 s against a pinned client that never sees an honest hello: no key, never connected, nothing handed to send() in clear.",
    "C03": " Plus handshakes whose round trip is swept frame by frame from 0.2 to 2.3 s at three frame lengths (879 quick configurations); a keyed client's hello-typed datagrams must be ciphertext too; keep-alive intervals below the send interval with busy-loop owners on a silent link.",
    "C04": " Plus forged headers with chosen datagram numbers (window walks) ahead of the replays.",
    "C05": " Plus a datagram-mate whose application callback raises, and resend intervals above the message timeout (one copy in flight) under outages of 1-3 message timeouts.",
    "C06": " Plus the two ends configured with different MTUs (split under one setting, reassembled under the other).",
    "C07": " Plus sends from inside send callbacks, content-selective loss of one fragment (copies included) over long round trips, 8- and 20-fragment best-effort messages.",
    "C08": " The connection-window part also feeds datagrams of 2-3 messages (fresh / received / stale numbers at every position) and runs on receivers with non-default timing settings.",
    "C09": " Plus further sends behind 1-3 unacked retry-mode messages judged frame by frame (2724 quick configurations) and one history of 65700 fragmented sends per MTU.",
    "C10": " Plus a client that retries its challenge response with fresh numbers (library path, hand-sealed bundles, inside the handshake datagram, from the connect callback), and a configuration with access logs enabled.",
    "C11": " Plus the server's own genuine datagrams reflected to it from the client's address (server ahead by 0 / 40 datagrams, both entry points).",
    "C13": " Serializable values also go through dumpb/loadb/dumpz/loadz; every 3-operation history of valid / refused encodes and valid / damaged decodes (35937 histories); decoding with a caller-supplied registry at 12 positions.",
    "C14": " Plus records of every registered class repeated up to 1024 (16384) times in every container shape with a values-per-byte bound, and Serializable.loadz on gzip members inflating to 16 MiB (96 MiB).",
    "C15": " Plus classes with mutable class-level defaults under every sequence of 3 (4) decodes / constructions, all results compared again at the end; nested classes with their own (list / string) JSON form in every typed position.",
    "C16": " Route pairs are also declared in a Resource subclass (names not in declaration order) and with a websocket route first / second.",
    "C17": " Plus 1.5e6 names with percent escapes (every escaped spelling of dot segments and separators) and relative roots across working-directory changes.",
    "C18": " Plus endpoints that close / send / echo from inside the callback of their k-th frame for every frame sequence and cut.",
    "C19": " Plus process histories: the parent hashes 0-3 times, two forked children / threads hash 1-2 times each, all salts distinct.",
    "C20": " Plus a second closed search over a resource class hierarchy (base, derived, sibling) on two dispatchers with first-use order in the state; one handler has a private-style name.",
}

NOT_YET = {
}


def main():
    props = [json.loads(l) for l in open(os.path.join(HERE, "properties.jsonl"))]
    checks = []
    na = []
    for p in props:
        pid = p["id"]
        if pid in CHECKS:
            c = CHECKS[pid]
            checks.append({
                "property_id": pid,
                "quick_cmd": "./run %s --tier quick" % pid,
                "thorough_cmd": "./run %s --tier thorough" % pid,
                "evidence_file": "/verif/evidence/%s.json" % pid,
                "replay_cmd_template": "./run %s --replay {path}" % pid,
                "engine": c["engine"],
                "level_claimed": {"category": c["category"], "text": c["text"] + EXTRA.get(pid, ""), "design_ref": "DESIGN.md section " + c["design"]},
                "level_note": c["note"],
                "technique": c["technique"],
            })
        else:
            na.append({"property_id": pid, "reason": NOT_YET.get(pid, "check not built yet in this revision of /verif (planned, see DESIGN.md section 5); not claimed until it runs")})
    manifest = {
        "version": 1,
        "setup_cmd": "true",
        "hooks": {
            "guard": "MPGAMESERVER_VERIF",
            "enable": "no source hooks exist: every seam (clock, urandom, key generation, sockets, select, reactor, locks) is a module attribute replaced from outside by /verif/mc/seams.py; the guard variable is unused by the package",
            "baseline_off_cmd": "cd /repo && /venv/bin/python -m pytest -ra -q -p no:cacheprovider --timeout=900 --continue-on-collection-errors",
            "source_commits": [],
            "add_only": True,
        },
        "engines": [
            {"name": "mcx", "path": "mc/explore.py", "kind_free_text": A, "serves_properties": [k for k, v in CHECKS.items() if "mcx" in v["engine"]]},
            {"name": "bfs", "path": "checks/c20.py", "kind_free_text": B, "serves_properties": [k for k, v in CHECKS.items() if "bfs" in v["engine"]]},
            {"name": "enum", "path": "mc/core.py", "kind_free_text": C, "serves_properties": [k for k, v in CHECKS.items() if "enum" in v["engine"]]},
        ],
        "checks": checks,
        "not_applicable": na,
        "notes": "All checks execute the real Python code of /repo's working tree (editable install, asserted at import). Entry point ./run <id> --tier quick|thorough [--replay file]. known_findings.json lists recorded and fixed defects.",
    }
    with open(os.path.join(HERE, "MANIFEST.json"), "w") as f:
        json.dump(manifest, f, indent=1)
        f.write("\n")


if __name__ == "__main__":
    main()
