#!/usr/bin/env python3
"""print the prompt for a seeding sub-agent: tools/seed_prompt.py C04 1 [hint]"""
import json, sys, subprocess, os
pid, n = sys.argv[1], sys.argv[2]
hint = sys.argv[3] if len(sys.argv) > 3 else ""
props = {json.loads(l)["id"]: json.loads(l) for l in open(os.path.join(os.path.dirname(__file__), "..", "properties.jsonl"))}
p = props[pid]
wt = "/tmp/seed/%s_%s" % (pid, n)
if not os.path.exists(wt):
    subprocess.check_call(["git", "-C", "/repo", "worktree", "add", "-q", "--detach", wt, "HEAD"])
print(f"""You are given a scratch git worktree of the open-source Python library nsetzer/mpgameserver (pure-Python encrypted UDP game networking: handshake, seqnum/ack reliability, fragmentation, binary serializer, Twisted HTTP router) at:

    {wt}

Work ONLY inside that directory. Do not read, list or use anything under /verif, /root/.vp or /repo (they are off limits for this task), and do not use the network.

The library is supposed to satisfy this semantic property:

    {pid} - {p['title']}
    STATEMENT: {p['statement']}
    QUANTIFIED OVER: {p['quantifier']['text']}
    RELEVANT FILES: {', '.join(p['anchors']['files'])}

YOUR TASK: make ONE small change to the library source (files under {wt}/mpgameserver/, at most ~15 changed lines, no changes to tests) that BREAKS this property, while the library still imports and its existing test suite still passes. The change must be realistic - something a developer could plausibly introduce as a refactoring, optimisation, 'simplification' or off-by-one slip - and it must need something SPECIFIC to manifest: a particular interleaving or network schedule, a fault (loss/duplication/delay) at a particular point, a multi-step sequence of operations, an unusual input or boundary value, or two cooperating sites that each look fine alone. Do NOT pick a change that ordinary use would expose at once (for instance one that breaks every message or every call). {hint}

Requirements:
1. Run the existing tests with the change applied:  cd {wt} && /venv/bin/python -m pytest -q -p no:cacheprovider --timeout=900   (89 tests; tests/server_test.py::Server2TestCase::test_server_disconnect is timing sensitive - if it alone fails, re-run it). All must pass. /venv/bin/python run from inside the worktree imports the worktree's copy of the package.
2. Write a demonstration script {wt}/demo.py (plain Python using only the library and the standard library, no pytest needed; it may drive ConnectionBase / ClientServerConnection / ServerClientConnection objects directly with a fake clock the way tests/connection_test.py does, or call the pure functions involved). `cd {wt} && /venv/bin/python demo.py` must exit 0 on the ORIGINAL code and exit 1 - printing what went wrong - WITH your change. Check both. To switch, do NOT use `git stash` (all scratch worktrees on this machine share one stash stack and other people are using it): save your change with `git diff > /tmp/seed/change_{pid}_{n}.patch`, go back to the original with `git checkout -- mpgameserver`, and restore your change with `git apply /tmp/seed/change_{pid}_{n}.patch`. Never use `pkill`/`killall` with a pattern (other people run the same commands); kill only PIDs you started. Source files use CRLF line endings; keep them.
3. Leave your change applied as UNCOMMITTED modifications in the worktree (so that `git -C {wt} diff` shows exactly the change) and leave demo.py there as an untracked file. Do not commit, do not create other worktrees.
4. Finish with a short report: the diff, why it violates the property, exactly what is needed for it to manifest, and the commands you ran with their results (tests with change: N passed; demo.py exit codes with and without the change).
""")
