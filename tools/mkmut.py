#!/usr/bin/env python3
"""mkmut.py <out.diff> <repo-relative-file> <old> <new> [<file> <old> <new> ...]
build a patch by exact string replacement against /repo's working tree (CRLF aware)"""
import sys, difflib, os
out = sys.argv[1]
args = sys.argv[2:]
REPO = os.environ.get("MUT_REPO", "/repo")
chunks = []
while args:
    f, old, new = args[:3]; args = args[3:]
    src = open(os.path.join(REPO, f), newline='').read()
    if '\r\n' in src:
        old = old.replace('\r\n', '\n').replace('\n', '\r\n')
        new = new.replace('\r\n', '\n').replace('\n', '\r\n')
    assert src.count(old) == 1, "pattern occurs %d times in %s" % (src.count(old), f)
    dst = src.replace(old, new)
    chunks.append(''.join(difflib.unified_diff(src.splitlines(True), dst.splitlines(True), 'a/' + f, 'b/' + f)))
open(out, 'w', newline='').write(''.join(chunks))
print(out, "written")
