#!/venv/bin/python
"""Mutation sweep used to look for blind spots of the checks (not a registered check, see DESIGN.md section 13).

  tools/mutate.py gen  <repo-relative-file>... > mutants.jsonl      enumerate first-order mutants (AST located, text spliced)
  tools/mutate.py tests <mutants.jsonl> <outdir> [jobs]              phase 1: which mutants compile and pass the 89 pinned tests
  tools/mutate.py checks <outdir> <ids,comma,separated>              phase 2: run quick checks (stop at first detection) on test survivors

Everything happens in scratch worktrees under /tmp; /repo is never touched.
"""
import ast
import io
import json
import os
import re
import subprocess
import sys
import tokenize

REPO = "/repo"

SKIP_FUNCS = {"__repr__", "__str__", "_log", "dump", "debug", "__format__"}
SKIP_LINE = re.compile(r"\blog\.|mplogger\.|logging\.|\bprint\(|sys\.stderr|\.stats\.|_latenc|latency|assert ")

CMP = {ast.Lt: "<", ast.LtE: "<=", ast.Gt: ">", ast.GtE: ">=", ast.Eq: "==", ast.NotEq: "!=", ast.Is: "is", ast.IsNot: "is not", ast.In: "in", ast.NotIn: "not in"}
CMP_SWAP = {"<": ["<=", ">"], "<=": ["<"], ">": [">=", "<"], ">=": [">"], "==": ["!="], "!=": ["=="], "is": ["is not"], "is not": ["is"], "in": ["not in"], "not in": ["in"]}


class Src(object):
    def __init__(self, text):
        self.text = text
        self.lines = text.split("\n")  # keeps \r at line ends
        self.starts = [0]
        for ln in self.lines:
            self.starts.append(self.starts[-1] + len(ln) + 1)

    def off(self, lineno, col):
        # col is a utf8 byte offset in ast; the files are ascii where it matters
        line = self.lines[lineno - 1]
        return self.starts[lineno - 1] + len(line.encode("utf-8")[:col].decode("utf-8"))

    def seg(self, node):
        return self.text[self.off(node.lineno, node.col_offset):self.off(node.end_lineno, node.end_col_offset)]


def gen_file(relpath):
    raw = open(os.path.join(REPO, relpath), newline="").read()
    src = Src(raw)
    tree = ast.parse(raw)
    out = []
    func_stack = []

    def add(op, a, b, new, lineno):
        line = src.lines[lineno - 1]
        if SKIP_LINE.search(line):
            return
        if any(f in SKIP_FUNCS for f in func_stack):
            return
        old = raw[a:b]
        if old == new:
            return
        out.append({"file": relpath, "op": op, "start": a, "end": b, "old": old, "new": new, "line": lineno,
                    "func": ".".join(func_stack), "text": line.strip()[:120]})

    def visit(node):
        is_scope = isinstance(node, (ast.FunctionDef, ast.ClassDef, ast.AsyncFunctionDef))
        if is_scope:
            func_stack.append(node.name)
        # ---- expression level
        if isinstance(node, ast.Compare):
            left = node.left
            for op, comp in zip(node.ops, node.comparators):
                a = src.off(left.end_lineno, left.end_col_offset)
                b = src.off(comp.lineno, comp.col_offset)
                between = raw[a:b]
                sym = CMP[type(op)]
                m = re.search(re.escape(sym).replace(r"\ ", r"\s+"), between)
                if m:
                    for rep in CMP_SWAP[sym]:
                        add("cmp", a + m.start(), a + m.end(), rep, left.end_lineno)
                left = comp
        elif isinstance(node, ast.BoolOp):
            sym = "and" if isinstance(node.op, ast.And) else "or"
            for v1, v2 in zip(node.values, node.values[1:]):
                a = src.off(v1.end_lineno, v1.end_col_offset)
                b = src.off(v2.lineno, v2.col_offset)
                m = re.search(r"\b%s\b" % sym, raw[a:b])
                if m:
                    add("bool", a + m.start(), a + m.end(), "or" if sym == "and" else "and", v1.end_lineno)
        elif isinstance(node, ast.UnaryOp) and isinstance(node.op, ast.Not):
            a = src.off(node.lineno, node.col_offset)
            b = src.off(node.operand.lineno, node.operand.col_offset)
            add("not", a, b, "", node.lineno)
        elif isinstance(node, ast.BinOp) and isinstance(node.op, (ast.Add, ast.Sub)):
            a = src.off(node.left.end_lineno, node.left.end_col_offset)
            b = src.off(node.right.lineno, node.right.col_offset)
            sym = "+" if isinstance(node.op, ast.Add) else "-"
            m = re.search(re.escape(sym), raw[a:b])
            if m and not isinstance(node.left, ast.Constant) or (m and not isinstance(getattr(node.left, "value", None), str)):
                add("arith", a + m.start(), a + m.end(), "-" if sym == "+" else "+", node.left.end_lineno)
        elif isinstance(node, ast.Constant) and isinstance(node.value, int) and not isinstance(node.value, bool):
            a = src.off(node.lineno, node.col_offset)
            b = src.off(node.end_lineno, node.end_col_offset)
            txt = raw[a:b]
            if re.fullmatch(r"\d+", txt):
                add("const", a, b, str(node.value + 1), node.lineno)
                if node.value > 0:
                    add("const", a, b, str(node.value - 1), node.lineno)
        # ---- statement level
        if isinstance(node, (ast.If, ast.While)) and func_stack:
            t = node.test
            a = src.off(t.lineno, t.col_offset)
            b = src.off(t.end_lineno, t.end_col_offset)
            add("negate", a, b, "not (%s)" % raw[a:b], t.lineno)
        if isinstance(node, (ast.Expr, ast.Assign, ast.AugAssign, ast.Raise, ast.Continue, ast.Break, ast.Delete)) and func_stack:
            if not (isinstance(node, ast.Expr) and isinstance(node.value, ast.Constant)):  # docstrings
                if node.lineno == node.end_lineno or True:
                    a = src.off(node.lineno, node.col_offset)
                    b = src.off(node.end_lineno, node.end_col_offset)
                    if "\n" not in raw[a:b] or raw[a:b].count("\n") <= 3:
                        add("delete", a, b, "pass", node.lineno)
        if isinstance(node, ast.Return) and node.value is not None and func_stack:
            v = node.value
            a = src.off(v.lineno, v.col_offset)
            b = src.off(v.end_lineno, v.end_col_offset)
            if isinstance(v, ast.Constant) and isinstance(v.value, bool):
                add("return", a, b, "False" if v.value else "True", v.lineno)
        for ch in ast.iter_child_nodes(node):
            visit(ch)
        if is_scope:
            func_stack.pop()

    visit(tree)
    # de-duplicate
    seen = set()
    res = []
    for m in out:
        k = (m["start"], m["end"], m["new"])
        if k in seen:
            continue
        seen.add(k)
        res.append(m)
    return res


def apply_mutant(m, root):
    p = os.path.join(root, m["file"])
    raw = open(os.path.join(REPO, m["file"]), newline="").read()
    assert raw[m["start"]:m["end"]] == m["old"], "source moved"
    new = raw[:m["start"]] + m["new"] + raw[m["end"]:]
    open(p, "w", newline="").write(new)
    return new


def restore(m, root):
    raw = open(os.path.join(REPO, m["file"]), newline="").read()
    open(os.path.join(root, m["file"]), "w", newline="").write(raw)


def mk_worktree(path):
    if not os.path.exists(path):
        subprocess.check_call(["git", "-C", REPO, "worktree", "add", "-q", "--detach", path, "HEAD"])
    # bring uncommitted state of /repo? /repo is expected clean
    return path


def rm_worktree(path):
    subprocess.call(["git", "-C", REPO, "worktree", "remove", "--force", path], stdout=subprocess.DEVNULL, stderr=subprocess.DEVNULL)


def tests_worker(args):
    k, mutants, outdir = args
    wt = os.path.join(outdir, "wt%d" % k)
    mk_worktree(wt)
    res = []
    try:
        for m in mutants:
            new = apply_mutant(m, wt)
            status = None
            try:
                compile(new, m["file"], "exec")
            except SyntaxError:
                status = "syntax"
            if status is None:
                p = subprocess.run(["timeout", "300", "/venv/bin/python", "-m", "pytest", "-q", "-x", "-p", "no:cacheprovider", "--timeout=120"],
                                   cwd=wt, stdout=subprocess.PIPE, stderr=subprocess.STDOUT, text=True,
                                   env=dict(os.environ, PYTHONDONTWRITEBYTECODE="1"))
                tail = p.stdout.strip().splitlines()[-1] if p.stdout.strip() else ""
                if p.returncode == 0 and " passed" in tail and "failed" not in tail:
                    status = "survives-tests"
                else:
                    status = "killed-by-tests"
                m["tests_tail"] = tail[-100:]
            restore(m, wt)
            m["status"] = status
            res.append(m)
            with open(os.path.join(outdir, "tests.%d.jsonl" % k), "a") as f:
                f.write(json.dumps(m) + "\n")
    finally:
        rm_worktree(wt)
    return res


def phase_tests(mfile, outdir, jobs):
    import concurrent.futures as cf
    os.makedirs(outdir, exist_ok=True)
    mutants = [json.loads(l) for l in open(mfile)]
    done = set()
    for fn in os.listdir(outdir):
        if fn.startswith("tests.") and fn.endswith(".jsonl"):
            for l in open(os.path.join(outdir, fn)):
                d = json.loads(l)
                done.add((d["file"], d["start"], d["end"], d["new"]))
    todo = [m for m in mutants if (m["file"], m["start"], m["end"], m["new"]) not in done]
    print("mutants", len(mutants), "todo", len(todo), flush=True)
    chunks = [(k, todo[k::jobs], outdir) for k in range(jobs)]
    with cf.ProcessPoolExecutor(jobs) as ex:
        for r in ex.map(tests_worker, chunks):
            pass
    print("tests phase done")


OP_ORDER = {"cmp": 0, "negate": 1, "bool": 2, "not": 3, "return": 4, "arith": 5, "delete": 6, "const": 7}


def cpu_base(wt):
    try:
        return int(wt[-1]) * int(os.environ.get("MUT_JOBS", "5"))
    except ValueError:
        return 0


def check_one(args):
    m, wt, ids, cpath = args
    apply_mutant(m, wt)
    killed = None
    tried = []
    try:
        for cid in ids:
            p = subprocess.run(["timeout", "1800", "/verif/run", cid, "--tier", "quick", "--no-evidence", "--jobs", os.environ.get("MUT_JOBS", "5")],
                               stdout=subprocess.PIPE, stderr=subprocess.STDOUT, text=True, env=dict(os.environ, VERIF_REPO=wt, VERIF_CPU_BASE=str(cpu_base(wt))))
            tried.append((cid, p.returncode))
            if p.returncode == 1 and "VIOLATION" in p.stdout:
                killed = cid
                m["first_violation"] = [l for l in p.stdout.splitlines() if "violation oracle" in l][:1]
                break
            if p.returncode not in (0, 1):
                # no verdict from this check (it crashed or hung): note it and go on with the other checks
                m.setdefault("harness_errors", []).append((cid, p.stdout.strip().splitlines()[-2:]))
    finally:
        restore(m, wt)
    m["killed_by"] = killed
    m["tried"] = tried
    return m


def phase_checks(outdir, ids, par=3):
    import concurrent.futures as cf
    import queue
    surv = []
    for fn in sorted(os.listdir(outdir)):
        if fn.startswith("tests.") and fn.endswith(".jsonl"):
            for l in open(os.path.join(outdir, fn)):
                d = json.loads(l)
                if d["status"] == "survives-tests":
                    surv.append(d)
    surv.sort(key=lambda d: (OP_ORDER.get(d["op"], 9), d["file"], d["start"], d["new"]))
    done = set()
    cpath = os.path.join(outdir, "checks.jsonl")
    if os.path.exists(cpath):
        for l in open(cpath):
            d = json.loads(l)
            done.add((d["file"], d["start"], d["end"], d["new"]))
    todo = [m for m in surv if (m["file"], m["start"], m["end"], m["new"]) not in done]
    print("test survivors", len(surv), "already checked", len(done), "todo", len(todo), flush=True)
    wts = queue.Queue()
    for k in range(par):
        wts.put(mk_worktree(os.path.join(outdir, "wtc%d" % k)))

    def job(m):
        wt = wts.get()
        try:
            return check_one((m, wt, ids, cpath))
        finally:
            wts.put(wt)
    try:
        with cf.ThreadPoolExecutor(par) as ex:
            for m in ex.map(job, todo):
                with open(cpath, "a") as f:
                    f.write(json.dumps(m) + "\n")
                print("%s:%d %s %r -> %r : %s" % (m["file"], m["line"], m["op"], m["old"][:30], m["new"][:30], m["killed_by"] or "SURVIVES"), flush=True)
    finally:
        for k in range(par):
            rm_worktree(os.path.join(outdir, "wtc%d" % k))
        subprocess.call("rm -f /verif/replays/*.json", shell=True)


if __name__ == "__main__":
    cmd = sys.argv[1]
    if cmd == "gen":
        for f in sys.argv[2:]:
            for m in gen_file(f):
                print(json.dumps(m))
    elif cmd == "tests":
        phase_tests(sys.argv[2], sys.argv[3], int(sys.argv[4]) if len(sys.argv) > 4 else 4)
    elif cmd == "checks":
        phase_checks(sys.argv[2], sys.argv[3].split(","), int(sys.argv[4]) if len(sys.argv) > 4 else 3)
