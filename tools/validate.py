#!/usr/bin/env python3
"""validate MANIFEST.json and every evidence file against the schemas (run with python3-vt)"""
import json, sys, glob, os
import jsonschema
HERE = os.path.dirname(os.path.dirname(os.path.abspath(__file__)))
ms = json.load(open('/root/.vp/MANIFEST.schema.json'))
es = json.load(open('/root/.vp/EVIDENCE.schema.json'))
m = json.load(open(os.path.join(HERE, 'MANIFEST.json')))
jsonschema.validate(m, ms)
claimed = {c['property_id'] for c in m['checks']}
na = {c['property_id'] for c in m.get('not_applicable', [])}
props = {json.loads(l)['id'] for l in open(os.path.join(HERE, 'properties.jsonl'))}
assert claimed | na == props and not (claimed & na), (claimed, na)
bad = 0
for c in m['checks']:
    p = c['evidence_file']
    if not os.path.exists(p):
        print('MISSING evidence', p); bad += 1; continue
    e = json.load(open(p))
    try:
        jsonschema.validate(e, es)
        assert e['level'] == c['level_claimed']['category'], (e['level'], c['level_claimed']['category'])
        print('ok', p, e['tier'], e['level'], 'wall', e['wall_s'], 'viol', e.get('violations'))
    except Exception as ex:
        print('INVALID', p, str(ex)[:300]); bad += 1
print('manifest ok; claimed', sorted(claimed))
sys.exit(1 if bad else 0)
