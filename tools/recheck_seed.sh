#!/bin/bash
# usage: recheck.sh SEED CHECK...
S=$1; shift
WT=$(mktemp -d /tmp/seedrun.XXXXXX)
git -C /repo worktree add -q --detach "$WT" HEAD
git -C "$WT" apply /verif/seeded/$S/patch.diff || echo APPLY-FAILED
for c in "$@"; do
  VERIF_REPO="$WT" /verif/run $c --tier quick --no-evidence > /tmp/seedrun_$c.log 2>&1; RC=$?
  echo "$S -> $c rc=$RC $(grep -m1 'violation oracle' /tmp/seedrun_$c.log | cut -c1-260)"
done
git -C /repo worktree remove --force "$WT"; rm -rf "$WT"
