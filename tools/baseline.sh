#!/bin/bash
# run the repository's pinned test suite (guard off) against a tree and compare with BASELINE.json
# usage: tools/baseline.sh [repo-dir]   (default /repo)
REPO=${1:-/repo}
OUT=$(mktemp /tmp/baseline.XXXXXX.xml)
unset MPGAMESERVER_VERIF
cd "$REPO" && /venv/bin/python -m pytest -ra -q -p no:cacheprovider --timeout=900 --continue-on-collection-errors --junitxml="$OUT" >/tmp/baseline.$$.log 2>&1
/venv/bin/python - "$OUT" <<'PY'
import sys, json, xml.etree.ElementTree as ET
base = set(json.load(open('/root/.vp/BASELINE.json'))['stable_pass'])
ok = set()
bad = []
for tc in ET.parse(sys.argv[1]).getroot().iter('testcase'):
    name = "%s::%s" % (tc.get('classname'), tc.get('name'))
    if any(ch.tag in ('failure', 'error', 'skipped') for ch in tc):
        bad.append(name)
    else:
        ok.add(name)
missing = sorted(base - ok)
print("baseline: %d/%d stable tests pass; failing/missing: %s" % (len(base & ok), len(base), missing))
sys.exit(1 if missing else 0)
PY
RC=$?
rm -f "$OUT"
if [ $RC -ne 0 ]; then tail -30 /tmp/baseline.$$.log; fi
rm -f /tmp/baseline.$$.log
exit $RC
