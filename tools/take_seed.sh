#!/bin/bash
# usage: tools/take_seed.sh <PROP> <n> "<what it needs to manifest>" [extra checks...]
# verifies a sub-agent's seeded change in its scratch worktree, runs our check(s) against it, files it under seeded/, removes the worktree
P=$1; N=$2; NEEDS=$3; shift 3
WT=/tmp/seed/${P}_${N}
OUT=/verif/seeded/${P}-${N}
[ -d "$WT" ] || { echo "no worktree $WT"; exit 2; }
mkdir -p "$OUT"
git -C "$WT" diff > "$OUT/patch.diff"
[ -s "$OUT/patch.diff" ] || { echo "EMPTY DIFF"; exit 2; }
cp "$WT/demo.py" "$OUT/demo.py" 2>/dev/null || echo "no demo.py"
echo "--- diffstat"; git -C "$WT" diff --stat | tail -3
echo "--- tests with change"; TESTS=$(/verif/tools/baseline.sh "$WT" | head -1); echo "$TESTS"
if ! echo "$TESTS" | grep -q "89/89"; then TESTS=$(/verif/tools/baseline.sh "$WT" | head -1); echo "retry: $TESTS"; fi
echo "--- demo with change"; (cd "$WT" && timeout 300 /venv/bin/python demo.py >/tmp/seed/demo_with.log 2>&1); DW=$?; echo "exit $DW"; tail -3 /tmp/seed/demo_with.log
git -C "$WT" stash -q
echo "--- demo without change"; (cd "$WT" && timeout 300 /venv/bin/python demo.py >/tmp/seed/demo_without.log 2>&1); DWO=$?; echo "exit $DWO"; tail -2 /tmp/seed/demo_without.log
git -C "$WT" stash pop -q
RES=""
for c in $P "$@"; do
  echo "--- check $c (quick) against the change"
  VERIF_REPO="$WT" /verif/run "$c" --tier quick --no-evidence > /tmp/seed/check_$c.log 2>&1; RC=$?
  grep -E "^(VIOLATION|  violation|C[0-9]+ tier|HARNESS)" /tmp/seed/check_$c.log | cut -c1-260 | head -6
  echo "rc=$RC"
  RES="$RES $c:rc=$RC"
done
/venv/bin/python - "$P" "$N" "$NEEDS" "$TESTS" "$DW" "$DWO" "$RES" <<'PY'
import json, sys
p, n, needs, tests, dw, dwo, res = sys.argv[1:8]
meta = {"property": p, "n": int(n), "needs_to_manifest": needs, "baseline_tests_with_change": tests,
        "demo_exit_with_change": int(dw), "demo_exit_without_change": int(dwo),
        "quick_checks_against_change": res.strip(),
        "ran": ["tools/baseline.sh <worktree>", "cd <worktree> && /venv/bin/python demo.py (with change / after git stash)", "VERIF_REPO=<worktree> ./run <id> --tier quick --no-evidence"],
        "origin": "independent sub-agent given only the property text and its own scratch worktree"}
json.dump(meta, open("/verif/seeded/%s-%s/meta.json" % (p, n), "w"), indent=1)
print("meta:", json.dumps(meta)[:400])
PY
git -C /repo worktree remove --force "$WT"
