#!/bin/bash
# usage: tools/try_mutant.sh <patch.diff> <tier> <check-id>...   
# applies the patch to a scratch worktree of /repo (HEAD), runs the baseline tests there, then the given checks against it.
PATCH=$(realpath "$1"); TIER=$2; shift 2
WT=$(mktemp -d /tmp/mut.XXXXXX)
git -C /repo worktree add -q --detach "$WT" HEAD || exit 3
cleanup() { git -C /repo worktree remove --force "$WT" >/dev/null 2>&1; rm -rf "$WT"; }
trap cleanup EXIT
if ! git -C "$WT" apply "$PATCH"; then echo "PATCH-DOES-NOT-APPLY"; exit 3; fi
if [ -z "$SKIP_TESTS" ]; then
  /verif/tools/baseline.sh "$WT" | head -1
fi
for c in "$@"; do
  VERIF_REPO="$WT" /verif/run "$c" --tier "$TIER" --no-evidence 2>&1 | grep -E "^(VIOLATION|KNOWN|C[0-9]+ tier|HARNESS)" | cut -c1-400 | head -8
  echo "rc=${PIPESTATUS[0]}"
done
