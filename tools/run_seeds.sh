#!/bin/bash
# re-run the quick check of every seeded change against a scratch worktree with the change applied
# usage: tools/run_seeds.sh [seed-dir-name ...]   (default: all)   env TIER=quick|thorough
TIER=${TIER:-quick}
cd /verif/seeded || exit 1
SEEDS=${@:-$(ls -d */ | tr -d /)}
for s in $SEEDS; do
  [ -f "$s/patch.diff" ] || continue
  P=${s%%-*}
  WT=$(mktemp -d /tmp/seedrun.XXXXXX)
  git -C /repo worktree add -q --detach "$WT" HEAD
  if git -C "$WT" apply "/verif/seeded/$s/patch.diff" 2>/dev/null; then
    EXTRA=$(/venv/bin/python -c "import json;print(' '.join(json.load(open('/verif/seeded/$s/meta.json')).get('also_checks',[])))" 2>/dev/null)
    R=""
    for c in $P $EXTRA; do
      VERIF_REPO="$WT" /verif/run "$c" --tier "$TIER" --no-evidence > /tmp/seedrun.log 2>&1; RC=$?
      R="$R $c:$( [ $RC -eq 1 ] && echo DETECTED || ([ $RC -eq 0 ] && echo missed || echo harness-error) )"
    done
    echo "$s ->$R"
  else
    echo "$s -> PATCH-DOES-NOT-APPLY (repo moved on)"
  fi
  git -C /repo worktree remove --force "$WT"; rm -rf "$WT"
done
