#!/bin/bash
# run every claimed check (quick by default) and print one line each; TIER=thorough for the deep tier; NOEV=1 to leave evidence alone
TIER=${TIER:-quick}
cd /verif
IDS=${@:-$(/venv/bin/python -c "import json;print(' '.join(c['property_id'] for c in json.load(open('MANIFEST.json'))['checks']))")}
FAIL=0
for c in $IDS; do
  OUT=$(./run $c --tier $TIER ${NOEV:+--no-evidence} 2>&1); RC=$?
  echo "$OUT" | grep -E "^(VIOLATION|HARNESS)" | head -3
  echo "$OUT" | tail -1 | cut -c1-110 | sed "s/^/rc=$RC /"
  [ $RC -ne 0 ] && FAIL=1
done
exit $FAIL
