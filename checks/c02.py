"""C02 - the handshake authenticates the server, agrees one key, promotes on proof of key.

Engine A with a man in the middle between real UdpClient(s) (pinned root
public key) and the real server stack.

 bytes      every byte position of SERVER_HELLO and CHALLENGE_RESP and the
            meaningful part of CLIENT_HELLO x xor {01, 80, FF} x with/without
            CRC fix-up, one fresh handshake per mutant
 forgeries  field-level substitutions built from everything but the two
            private keys (attacker root/ephemeral keys, another honest session
            of the same server, salts, tokens, re-signing, signature damage),
            challenge responses forged in clear / under attacker keys / taken
            from another session
 crafted    single crafted datagrams (CRC form / attacker key), including multi-message ones whose
            inner types differ from the header type, to an unknown address, a half-open connection
            and a key-less client: nobody is promoted, keyed or handed a message
 histories  one pinned client that is never shown an honest hello lives through every sequence of three events from
            {forged hello (original / fresh datagram / fresh datagram+message numbers), silence of 0.5 s, 2.5 s (> connect
            timeout), 6 s (> drop rule)} while the application calls update() every frame and keeps trying to send:
            after every frame unconnected with no key, and nothing handed to send() appears on the wire in clear
 schedules  every <=2-deviation schedule (drop/dup/delay) of the handshake
            datagrams of one and of two concurrently connecting clients, plus
            cross-delivery of hellos and challenge responses between sessions

Oracles (reference = cryptography primitives called directly)
 (a) client holds a key or is CONNECTED  =>  the last SERVER_HELLO it processed carries a
     (payload, signature) pair that verifies under the PINNED key and the adopted salt, token and
     key are exactly those of that payload (key recomputed with ECDH+HKDF); otherwise no key and
     status CONNECTING or DISCONNECTED
 (b) honest run => both ends hold the same 16-byte key and token
 (c) handler.connect(c) => the server received from c.addr a datagram that decrypts under c's key
     and carries the token issued to c; c is in the connected pool only after that
"""
import binascii
import io
import struct

from mc import core, explore, seams
from mc.world import World, Monitor

core.import_repo()
from cryptography.hazmat.primitives.ciphers.aead import AESGCM  # noqa
from cryptography.hazmat.primitives.asymmetric import ec  # noqa
from cryptography.hazmat.primitives import hashes  # noqa
from cryptography.hazmat.primitives.kdf.hkdf import HKDF  # noqa
from cryptography.hazmat.primitives.serialization import load_der_public_key  # noqa
from mpgameserver.serializable import serialize_value, deserialize_value  # noqa
from mpgameserver.connection import (ConnectionStatus, PacketType, HandshakeServerHelloMessage,
                                     HandshakeClientChallengeResponseMessage, HandshakeClientHelloMessage, ClientServerConnection, PacketHeader)  # noqa

PROPERTY = "C02"
LEVEL = "model_checking"

CH, SH, CR = PacketType.CLIENT_HELLO.value, PacketType.SERVER_HELLO.value, PacketType.CHALLENGE_RESP.value

import os as _os
try:
    _SEED = int(_os.environ.get("VERIF_SEED", "0") or 0)
except ValueError:
    _SEED = 0
# VERIF_SEED rotates the fixture key pairs (root key and ephemeral pool position); it never selects which cases run
ROOT = _SEED % 6
KOFF = 6 + (_SEED % 5)          # ephemeral keys of the session under attack: fixture keys KOFF, KOFF+1
KOFF_OTHER = 12 + (_SEED % 5)   # another honest session of the same server


def crc_fix(d):
    body = d[:-4]
    return body + struct.pack(">L", binascii.crc32(body) & 0xFFFFFFFF)


def ser(v):
    s = io.BytesIO()
    serialize_value(s, v)
    return s.getvalue()


def ref_key(priv, peer_der, salt):
    pub = load_der_public_key(peer_der)
    shared = priv.key.exchange(ec.ECDH(), pub)
    return HKDF(algorithm=hashes.SHA256(), length=16, salt=salt, info=b"01-secp256r1-sha256-aesgcm128-server-client").derive(shared)


def parse_server_hello(datagram):
    """reference decoder of a SERVER_HELLO datagram: (root_der, payload, signature, server_der, salt, token) or None"""
    try:
        if datagram[12] != SH or datagram[15] != 1:
            return None
        length = struct.unpack(">H", datagram[13:15])[0]
        body = datagram[20:20 + length]
        msg = body[2:]
        st = io.BytesIO(msg)
        type_id, = struct.unpack(">H", st.read(2))
        if type_id != HandshakeServerHelloMessage.type_id:
            return None
        root = deserialize_value(st)
        payload = deserialize_value(st)
        sig = deserialize_value(st)
        ps = io.BytesIO(payload)
        server_der = deserialize_value(ps)
        salt = deserialize_value(ps)
        token = deserialize_value(ps)
        return root, payload, sig, server_der, salt, token
    except Exception:
        return None


_UNSET = object()


def build_server_hello(template, root_der, server_der, salt, token, sign_with=None, signature=_UNSET, payload_override=None):
    """forge a SERVER_HELLO datagram: header copied from a genuine one (length fixed up), CRC recomputed"""
    payload = payload_override if payload_override is not None else ser(server_der) + ser(salt) + ser(token)
    if signature is _UNSET:
        signature = sign_with.sign(payload)
    msg = struct.pack(">H", HandshakeServerHelloMessage.type_id) + ser(root_der) + ser(payload) + ser(signature)
    body = template[20:22] + msg
    hdr = template[:13] + struct.pack(">H", len(body)) + template[15:20]
    d = hdr + body
    return d + struct.pack(">L", binascii.crc32(d) & 0xFFFFFFFF)


class HandshakeMonitor(Monitor):
    """oracles (a) and (c), evaluated continuously"""

    def __init__(self):
        Monitor.__init__(self)
        self.last_sh = {}      # client index -> last SERVER_HELLO-typed datagram handed to that client
        self.to_server = {}    # addr -> list of datagrams delivered to the server from that address
        self.connected = []
        self.all_sh = {}       # client index -> every SERVER_HELLO-typed datagram handed to that client (late duplicates are
                               # dropped by a keyed client: the one it adopted is SOME earlier one, not necessarily the last)
        self.evil = []

    def on_app_message(self, w, end, seq, msg):
        if b"evil" in bytes(msg):
            self.evil.append(end)

    def on_deliver(self, w, d):
        if d.dst == "s":
            self.to_server.setdefault(d.client_addr, []).append(d.data)
        else:
            ce = w.end_for_addr(d.dst) if not isinstance(d.dst, str) else w.clients[int(d.dst[1:])]
            if ce is not None and len(d.data) >= 20 and d.data[12] == SH:
                self.last_sh[ce.index] = d.data
                self.all_sh.setdefault(ce.index, []).append(d.data)

    def on_handler_event(self, w, name, client, args):
        if name != "connect":
            return
        self.connected.append(client)
        key, token = client.session_key_bytes, client.token
        ok = False
        for data in self.to_server.get(client.addr, []):
            try:
                length = struct.unpack(">H", data[13:15])[0]
                pt = AESGCM(key).decrypt(data[:12], data[20:20 + length + 16], data[:20])
                msg = deserialize_value(io.BytesIO(pt[2:]))
                if isinstance(msg, HandshakeClientChallengeResponseMessage) and msg.token == token and token:
                    ok = True
            except Exception:
                continue
        if not ok:
            self.flag("promotion", "server reports a client connected without a challenge response that decrypts under its key and carries its token",
                      "connect(%s) token=%r: no such datagram among %d received from that address" % (client.addr, token, len(self.to_server.get(client.addr, []))))
        if client.addr not in w.ctxt.connections or client.addr in w.ctxt.temp_connections:
            self.flag("promotion", "connect event for a client that is not (only) in the connected pool", "%s" % (client.addr,))

    def check_clients(self, w, pinned):
        for ce in w.clients:
            c = ce.conn
            if c is None:
                continue
            has = c.session_key_bytes is not None or c.status == ConnectionStatus.CONNECTED
            if not has:
                if c.status not in (ConnectionStatus.CONNECTING, ConnectionStatus.DISCONNECTED, ConnectionStatus.DROPPED) or c.session_key_bytes is not None:
                    self.flag("client-auth", "client without key in an unexpected status", "%s" % c.status)
                continue
            why = None
            for cand in reversed(self.all_sh.get(ce.index, []) or [b"\x00" * 24]):
                why = self._explain(c, cand, pinned)
                if why is None:
                    break
            if why is not None:
                self.flag("client-auth", "client holds a key / is CONNECTED although %s" % why, "client %d status=%s" % (ce.index, c.status))

    def _explain(self, c, data, pinned):
        """None if this hello justifies the client's key, else the reason it does not"""
        if True:
            parsed = parse_server_hello(data)
            why = None
            if parsed is None:
                why = "no well-formed server hello was processed"
            else:
                root, payload, sig, server_der, salt, token = parsed
                try:
                    pinned.key.verify(sig, payload, ec.ECDSA(hashes.SHA256()))
                except Exception:
                    why = "the signature of the processed hello does not verify under the pinned key"
                if why is None:
                    try:
                        want = ref_key(c.session_key, server_der, salt)
                    except Exception as e:
                        want = None
                    if c.session_salt != salt or c.token != token or c.session_key_bytes != want or want is None or len(want) != 16:
                        why = "the adopted key/salt/token are not those of the signed payload"
            return why

    def state(self):
        return (len(self.violations),)


def step_world(w, mon, hook, max_ticks):
    """tick; after every tick ``hook(w)`` may rewrite the datagrams in flight"""
    pinned = w.root_key.getPublicKey()
    for _ in range(max_ticks):
        w.tick()
        if hook:
            hook(w)
        mon.check_clients(w, pinned)


def handshake_datagrams(w):
    """the in-flight handshake datagrams by type"""
    out = {}
    for d in w.net:
        if len(d.data) >= 20:
            out.setdefault(d.data[12], []).append(d)
    return out


# ---------------------------------------------------------------------------
# part 1 + 2: single substitution of one handshake datagram

def honest_capture(root_index=None, key_offset=None, rnd_seed=0):
    root_index = ROOT if root_index is None else root_index
    key_offset = KOFF if key_offset is None else key_offset
    """one honest handshake; returns the three datagrams and the session facts"""
    w = World(root_index=root_index, key_offset=key_offset, rnd_seed=rnd_seed)
    try:
        w.run_until_connected()
        w.run(2)
        d = {}
        for x in w.all_sent:
            d.setdefault(x.data[12], x.data)
        sc = w.server_conn(0)
        return {"CH": d[CH], "SH": d[SH], "CR": d[CR], "key": sc.session_key_bytes, "token": sc.token,
                "client_key": w.clients[0].conn.session_key_bytes, "client_token": w.clients[0].conn.token}
    finally:
        w.close()


def run_substitution(which, make, root_index=None, key_offset=None, warm=False):
    root_index = ROOT if root_index is None else root_index
    key_offset = KOFF if key_offset is None else key_offset
    """fresh handshake in which the datagram of type ``which`` is replaced by make(genuine bytes) (bytes or None=drop)"""
    mon = HandshakeMonitor()
    w = World(root_index=root_index, key_offset=key_offset, monitors=[mon])
    done = [False]
    try:
        def hook(w):
            if done[0]:
                return
            for d in list(w.net):
                if len(d.data) >= 20 and d.data[12] == which:
                    new = make(d.data)
                    done[0] = True
                    if new is None:
                        w.net.remove(d)
                    else:
                        d.data = bytes(new)
                        if warm and which == SH:
                            # process history: ANOTHER client of the same process, not pinned to any key, is shown the very
                            # same bytes first (it may well accept a self-signed hello) - what the pinned client does with
                            # them afterwards must not depend on that
                            try:
                                other = ClientServerConnection(("10.9.9.9", 9))
                                other._sendClientHello()
                                other._recv_datagram(PacketHeader.from_bytes(False, d.data), d.data)
                            except Exception:
                                pass
        hook(w)   # the client hello is already in flight
        step_world(w, mon, hook, 14)
        c = w.clients[0].conn
        sc = w.ctxt.connections.get(w.clients[0].addr)
        outcome = (c.status.value, c.session_key_bytes is not None, sc is not None, len(mon.connected))
        if c.session_key_bytes is not None and sc is not None and sc.session_key_bytes != c.session_key_bytes:
            mon.flag("key-agreement", "both ends completed the handshake with different keys", "")
        return outcome, list(mon.violations), done[0]
    finally:
        w.close()


def byte_mutants(tier):
    base = honest_capture()
    items = []
    for name, which, data in (("SH", SH, base["SH"]), ("CR", CR, base["CR"]), ("CH", CH, base["CH"])):
        n = len(data)
        if name == "CH":
            positions = list(range(0, 160)) + [n // 2, n - 40, n - 9, n - 8, n - 5, n - 4, n - 2, n - 1]
        else:
            positions = list(range(n))
        if tier == "quick" and name != "CR":
            xors = (0x01, 0x80)
        else:
            xors = (0x01, 0x80, 0xFF)
        for pos in positions:
            for x in xors:
                for fix in ((False, True) if name != "CR" else (False,)):
                    items.append((name, which, pos, x, fix))
    return items


def bytes_work_init(tier):
    global _TIER
    _TIER = tier


def bytes_work(items):
    viols = {}
    outcomes = core.Counter()
    total = 0
    for name, which, pos, x, fix in items:
        total += 1

        def make(data, pos=pos, x=x, fix=fix):
            m = bytearray(data)
            if pos < len(m):
                m[pos] ^= x
            m = bytes(m)
            return crc_fix(m) if fix else m
        outcome, v, applied = run_substitution(which, make)
        outcomes.inc("%s:%s" % (name, outcome))
        for oracle, sig, msg in v:
            viols.setdefault((oracle, sig), [0, {"part": "bytes", "datagram": name, "pos": pos, "xor": x, "crc_fix": fix}, msg])[0] += 1
    return total, dict(outcomes), viols


def forgeries():
    """(label, which, builder(genuine, ctx) -> bytes).  ctx has the attacker's material and another honest session."""
    keys = seams.fixture_keys()
    att_root, att_eph = keys[20], keys[21]
    other = honest_capture(root_index=ROOT, key_offset=KOFF_OTHER, rnd_seed=3)          # another session of the SAME server
    other_sh = parse_server_hello(other["SH"])
    out = []

    def sh(label, fn):
        out.append(("SH: " + label, SH, fn))

    def this(g):
        return parse_server_hello(g)

    att_root_der = att_root.getPublicKey().getBytes()
    att_eph_der = att_eph.getPublicKey().getBytes()
    # server_pubkey x salt x token substitutions, re-signed by the attacker or carrying a genuine signature of something else
    for pk_l, pk in (("this", None), ("other-session", other_sh[3]), ("attacker", att_eph_der)):
        for salt_l, salt in (("this", None), ("other-session", other_sh[4]), ("attacker", b"A" * 16)):
            for tok_l, tok in (("this", None), ("other-session", other_sh[5])):
                if (pk_l, salt_l, tok_l) == ("this", "this", "this"):
                    continue
                for root_l, root in (("real-root-field", None), ("attacker-root-field", att_root_der)):
                    def fn(g, pk=pk, salt=salt, tok=tok, root=root, mode="attacker-signed"):
                        t = this(g)
                        return build_server_hello(g, root or t[0], pk or t[3], salt or t[4], tok if tok is not None else t[5], sign_with=att_root)
                    sh("pubkey=%s salt=%s token=%s %s, signed by the attacker" % (pk_l, salt_l, tok_l, root_l), fn)

                    def fn2(g, pk=pk, salt=salt, tok=tok, root=root):
                        t = this(g)
                        return build_server_hello(g, root or t[0], pk or t[3], salt or t[4], tok if tok is not None else t[5], signature=t[2])
                    sh("pubkey=%s salt=%s token=%s %s, genuine signature of the original payload" % (pk_l, salt_l, tok_l, root_l), fn2)

                    def fn3(g, pk=pk, salt=salt, tok=tok, root=root):
                        t = this(g)
                        return build_server_hello(g, root or t[0], pk or t[3], salt or t[4], tok if tok is not None else t[5], signature=other_sh[2])
                    sh("pubkey=%s salt=%s token=%s %s, genuine signature of another session" % (pk_l, salt_l, tok_l, root_l), fn3)
    sh("genuine payload, attacker root field, attacker signature", lambda g: build_server_hello(g, att_root_der, None, None, None, sign_with=att_root, payload_override=this(g)[1]))
    sh("genuine payload, empty signature", lambda g: build_server_hello(g, this(g)[0], None, None, None, signature=b"", payload_override=this(g)[1]))
    sh("genuine payload, signature with one bit flipped", lambda g: build_server_hello(g, this(g)[0], None, None, None, signature=bytes([this(g)[2][0]]) + bytes([this(g)[2][1] ^ 0]) + this(g)[2][2:-1] + bytes([this(g)[2][-1] ^ 1]), payload_override=this(g)[1]))
    sh("genuine payload + trailing bytes inside the signed field", lambda g: build_server_hello(g, this(g)[0], None, None, None, signature=this(g)[2], payload_override=this(g)[1] + b"\x00"))
    # the signature FIELD is decoded generically: every non-bytes value an attacker can put there, with an attacker-chosen
    # payload (its own ephemeral key) and with the genuine payload
    for sl, sv in (("empty list", []), ("empty tuple", ()), ("null", None), ("int 0", 0), ("empty string", ""), ("list of empty bytes", [b""]),
                   ("empty map", {}), ("empty set", set()), ("list holding null", [None]), ("True", True), ("nested empty list", [[]]), ("float", 1.5)):
        def fn4(g, sv=sv):
            t = this(g)
            return build_server_hello(g, t[0], att_eph_der, b"A" * 16, t[5], signature=sv)
        sh("attacker key/salt, signature field = %s" % sl, fn4)

        def fn5(g, sv=sv):
            t = this(g)
            return build_server_hello(g, t[0], None, None, None, signature=sv, payload_override=t[1])
        sh("genuine payload, signature field = %s" % sl, fn5)
    sh("genuine payload, signature field = list holding the genuine signature", lambda g: build_server_hello(g, this(g)[0], None, None, None, signature=[this(g)[2]], payload_override=this(g)[1]))
    sh("entire hello of another session of the same server (replay)", lambda g: g[:20] + other["SH"][20:22] + other["SH"][22:-4] if False else crc_fix(g[:13] + other["SH"][13:15] + g[15:20] + other["SH"][20:]))
    sh("empty body", lambda g: crc_fix(g[:13] + struct.pack(">H", 2) + g[15:22] + b"\x00\x00\x00\x00"))
    # client hello with the attacker's key (server must then simply talk to the attacker's key: the CLIENT cannot derive the same key)
    def ch_att(g):
        m = HandshakeClientHelloMessage()
        m.client_pubkey = att_eph.getPublicKey()
        m.client_version = 1
        body = g[20:22] + m.dumpb()
        d = g[:13] + struct.pack(">H", len(body)) + g[15:20] + body
        return d + struct.pack(">L", binascii.crc32(d) & 0xFFFFFFFF)
    out.append(("CH: client key replaced by the attacker's", CH, ch_att))
    # challenge responses
    def cr_clear(g):
        m = HandshakeClientChallengeResponseMessage()
        # the token is public (it travelled in the server hello)
        return None
    out.append(("CR: dropped", CR, lambda g: None))
    out.append(("CR: of another session", CR, lambda g: other["CR"]))
    out.append(("CR: header of this session, ciphertext of another", CR, lambda g: g[:20] + other["CR"][20:]))

    def cr_plain(g, ctx={}):
        return g  # placeholder, replaced below (needs the token: built in work)
    return out, other


def wrong_token_cr(key, token, genuine):
    """challenge responses of a (malicious) client that holds the session key but answers with another token"""
    out = []
    for label, tok in (("token+1", token + 1), ("token 0", 0), ("token of nobody", 0x7FFFFFFF), ("negative token", -token),
                       ("token + 2**32 (same low 32 bits)", token + 2 ** 32), ("token - 2**32", token - 2 ** 32), ("token + 2**62", token + 2 ** 62),
                       ("token as float", float(token)), ("token as string", str(token)), ("token in a list", [token]), ("True", True)):
        m = HandshakeClientChallengeResponseMessage()
        m.token = tok
        body = genuine[20:22] + m.dumpb()
        hdr = genuine[:13] + struct.pack(">H", len(body)) + genuine[15:20]
        out.append(("CR: sealed under the session key but carrying %s" % label, hdr + AESGCM(key).encrypt(hdr[:12], body, hdr)))
    body = genuine[20:22] + b"\x00\x0f"   # a serialized None instead of the message
    hdr = genuine[:13] + struct.pack(">H", len(body)) + genuine[15:20]
    out.append(("CR: sealed under the session key, body is not a challenge message", hdr + AESGCM(key).encrypt(hdr[:12], body, hdr)))
    return out


def forged_cr_variants(token, genuine):
    """challenge responses an attacker who saw the (public) token can build"""
    m = HandshakeClientChallengeResponseMessage()
    m.token = token
    body = genuine[20:22] + m.dumpb()
    hdr = genuine[:13] + struct.pack(">H", len(body)) + genuine[15:20]
    clear = hdr + body
    clear = clear + struct.pack(">L", binascii.crc32(clear) & 0xFFFFFFFF)
    att = hdr + AESGCM(bytes(range(50, 66))).encrypt(hdr[:12], body, hdr)
    hello_typed = genuine[:12] + bytes([CH]) + struct.pack(">H", len(body)) + genuine[15:20] + body
    hello_typed = hello_typed + struct.pack(">L", binascii.crc32(hello_typed) & 0xFFFFFFFF)
    return [("CR: forged in clear with the public token (CRC)", clear), ("CR: sealed under an attacker key", att),
            ("CR: forged in clear, header re-typed CLIENT_HELLO", hello_typed)]


def forgery_work(arg):
    k, n = arg
    items, other = forgeries()
    viols = {}
    outcomes = core.Counter()
    total = 0
    for i, (label, which, fn) in enumerate(items):
        if i % n != k:
            continue
        for warm in ((False, True) if which == SH else (False,)):
            total += 1
            outcome, v, applied = run_substitution(which, fn, warm=warm)
            outcomes.inc("%s -> %s" % (label.split(":")[0], outcome))
            if not applied:
                viols.setdefault(("harness", "forgery was never applied"), [0, {"part": "forgery", "label": label}, label])[0] += 1
            for oracle, sig, msg in v:
                if warm:
                    sig += " [after another, unpinned client of the same process was shown the same hello]"
                viols.setdefault((oracle, sig), [0, {"part": "forgery", "label": label, "warm": warm}, "%s | %s" % (label, msg)])[0] += 1
    if k == 0:
        # forged challenge responses: need the token of the running session
        for vi in range(15):
            total += 1
            mon = HandshakeMonitor()
            w = World(root_index=ROOT, key_offset=KOFF, monitors=[mon])
            try:
                label = None
                for _ in range(14):
                    w.tick()
                    for d in list(w.net):
                        if d.data[12] == CR and label is None:
                            tc = w.ctxt.temp_connections.get(w.clients[0].addr)
                            cands = forged_cr_variants(tc.token, d.data) + wrong_token_cr(w.clients[0].conn.session_key_bytes, tc.token, d.data)
                            label, data = cands[vi]
                            d.data = data
                    mon.check_clients(w, w.root_key.getPublicKey())
                outcomes.inc("%s -> connected=%s" % (label, w.clients[0].addr in w.ctxt.connections))
                for oracle, sig, msg in mon.violations:
                    viols.setdefault((oracle, sig), [0, {"part": "forgery", "label": label}, "%s | %s" % (label, msg)])[0] += 1
            finally:
                w.close()
    if k == 1:
        # two handshakes half-open at the same time: client 1 answers, under ITS OWN key, with the token issued to
        # client 0 (tokens travel in clear in the server hellos); client 0's answer is withheld / arrives later
        for variant in ("other's answer withheld", "other's answer arrives two ticks later"):
            total += 1
            mon = HandshakeMonitor()
            w = World(root_index=ROOT, key_offset=KOFF, monitors=[mon], n_clients=2)
            try:
                done = False
                for _ in range(16):
                    w.tick()
                    crs = [d for d in w.net if len(d.data) >= 20 and d.data[12] == CR]
                    if not done and len(crs) == 2:
                        a = next(d for d in crs if d.src == "c0")
                        b = next(d for d in crs if d.src == "c1")
                        t0 = w.ctxt.temp_connections.get(w.clients[0].addr)
                        t1 = w.ctxt.temp_connections.get(w.clients[1].addr)
                        if t0 is not None and t1 is not None:
                            m = HandshakeClientChallengeResponseMessage()
                            m.token = t0.token
                            body = b.data[20:22] + m.dumpb()
                            hdr = b.data[:13] + struct.pack(">H", len(body)) + b.data[15:20]
                            b.data = hdr + AESGCM(w.clients[1].conn.session_key_bytes).encrypt(hdr[:12], body, hdr)
                            if variant.endswith("withheld"):
                                w.net.remove(a)
                            else:
                                a.release_tick += 2
                            done = True
                    mon.check_clients(w, w.root_key.getPublicKey())
                promoted = w.clients[1].addr in w.ctxt.connections
                outcomes.inc("CR with the other half-open connection's token (%s) -> promoted=%s" % (variant, promoted))
                if not done:
                    viols.setdefault(("harness", "the two challenge responses were never in flight together"), [0, {"part": "forgery", "label": variant}, variant])[0] += 1
                if promoted:
                    viols.setdefault(("promotion", "a connection is promoted by a challenge response that carries the token issued to ANOTHER half-open connection"),
                                     [0, {"part": "forgery", "label": "cross-token: " + variant}, variant])[0] += 1
                for oracle, sig, msg in mon.violations:
                    viols.setdefault((oracle, sig), [0, {"part": "forgery", "label": "cross-token: " + variant}, "%s | %s" % (variant, msg)])[0] += 1
            finally:
                w.close()
    return total, dict(outcomes), viols


# ---------------------------------------------------------------------------
# part 2a': promotion without a handshake - single crafted datagrams (CRC form or sealed under an attacker key), also
# MULTI-MESSAGE ones whose inner message types differ from the header type, sent from an address the server does not
# know, to a half-open connection (hello answered, challenge response withheld) and to a connecting client

def _multi(magic, typ, msgs, key=None, ctime=1000, seq=1):
    """msgs: [(type, payload)]; one message -> the type is the header's; several -> each carries its own"""
    if len(msgs) == 1:
        body = struct.pack(">H", 1) + msgs[0][1]
    else:
        body = b"".join(struct.pack(">HHB", len(pl), i + 1, t) + pl for i, (t, pl) in enumerate(msgs))
    hdr = struct.pack(">4sLHHBHBL", magic, ctime, seq, 0, typ, len(body), len(msgs), 0)
    if key is not None:
        return hdr + AESGCM(key).encrypt(hdr[:12], body, hdr)
    d = hdr + body
    return d + struct.pack(">L", binascii.crc32(d) & 0xFFFFFFFF)


def bundle_family(token, att_eph):
    KA, APP, DISC = PacketType.KEEP_ALIVE.value, PacketType.APP.value, PacketType.DISCONNECT.value

    def cr(tok):
        m = HandshakeClientChallengeResponseMessage()
        m.token = tok
        return m.dumpb()

    def ch(version=1):
        m = HandshakeClientHelloMessage()
        m.client_pubkey = att_eph.getPublicKey()
        m.client_version = version
        return m.dumpb()
    toks = [("token 0", 0), ("token 0x40000000", 0x40000000)] + ([("the issued token", token)] if token else [])
    out = []
    for tl, tok in toks:
        for hl, htype in (("CLIENT_HELLO", CH), ("CHALLENGE_RESP", CR), ("APP", APP)):
            out.append(("header %s, one message: challenge response with %s" % (hl, tl), (htype, [(CR, cr(tok))])))
            out.append(("header %s, [challenge response with %s, keep-alive]" % (hl, tl), (htype, [(CR, cr(tok)), (KA, b"")])))
            out.append(("header %s, [keep-alive, challenge response with %s, app message]" % (hl, tl), (htype, [(KA, b""), (CR, cr(tok)), (APP, b"evil")])))
            out.append(("header %s, [hello of an unsupported version, challenge response with %s]" % (hl, tl), (htype, [(CH, ch(99)), (CR, cr(tok))])))
            out.append(("header %s, [valid hello, challenge response with %s]" % (hl, tl), (htype, [(CH, ch(1)), (CR, cr(tok))])))
            out.append(("header %s, [challenge response with %s] x 2" % (hl, tl), (htype, [(CR, cr(tok)), (CR, cr(tok))])))
    out.append(("header CLIENT_HELLO, [app message, app message]", (CH, [(APP, b"evil"), (APP, b"evil2")])))
    out.append(("header CLIENT_HELLO, [disconnect, keep-alive]", (CH, [(DISC, b""), (KA, b"")])))
    return out


def bundle_work(arg):
    k, n = arg
    att_eph = seams.fixture_keys()[21]
    viols = {}
    total = 0
    outcomes = core.Counter()
    NEW = ("10.7.7.7", 7777)
    for target in ("unknown address", "half-open connection", "connecting client"):
        fam = bundle_family(0x41234567 if target != "unknown address" else 0, att_eph)
        for i, (label, (htype, msgs)) in enumerate(fam):
            for form in ("crc", "attacker-key"):
                total += 1
                if total % n != k:
                    continue
                mon = HandshakeMonitor()
                w = World(root_index=ROOT, key_offset=KOFF, monitors=[mon], n_clients=2, autoconnect=False)
                wit = {"part": "bundle", "target": target, "index": i, "form": form}
                try:
                    w.client_connect(0)
                    w.run(40, until=lambda w_: w_.clients[0].client.connected() and w_.clients[0].addr in w_.ctxt.connections)
                    token = 0
                    addr = NEW
                    if target == "connecting client":
                        w.client_connect(1)
                        for d in list(w.net):
                            if d.src == "c1":
                                w.net.remove(d)     # the server never hears of it: the client stays without a key
                        label, (htype, msgs) = bundle_family(0x41234567, att_eph)[i]
                    elif target != "unknown address":
                        # client 1 says hello; its challenge response is withheld
                        w.client_connect(1)
                        for _ in range(6):
                            w.tick()
                            for d in list(w.net):
                                if len(d.data) >= 20 and d.data[12] == CR:
                                    w.net.remove(d)
                        tc = w.ctxt.temp_connections.get(w.clients[1].addr)
                        if tc is None:
                            viols.setdefault(("harness", "no half-open connection"), [0, wit, label])[0] += 1
                            continue
                        token = tc.token
                        addr = w.clients[1].addr
                        label, (htype, msgs) = bundle_family(token, att_eph)[i]
                    key = bytes(range(70, 86)) if form == "attacker-key" else None
                    n_conn = len(mon.connected)
                    if target == "connecting client":
                        # a fresh client whose hello is withheld from the server: it has no key
                        w2c = _multi(b"FSOC", SH if htype == CH else htype, msgs, key=key, ctime=int(w.vt.now))
                        w.inject("c1", w2c)
                    else:
                        w.inject("s", _multi(b"FSOS", htype, msgs, key=key, ctime=int(w.vt.now)), client_addr=addr)
                    for _ in range(6):
                        w.tick()
                        for d in list(w.net):
                            if d.src == "c1" and (target == "connecting client" or (len(d.data) >= 20 and d.data[12] == CR)):
                                w.net.remove(d)
                        mon.check_clients(w, w.root_key.getPublicKey())
                    promoted = addr in w.ctxt.connections
                    outcomes.inc("%s/%s -> promoted=%s" % (target, form, promoted))
                    if target != "connecting client":
                        if promoted or len(mon.connected) != n_conn:
                            viols.setdefault(("promotion", "a single crafted datagram (%s) to the server gets an address reported as connected" % ("sealed under an attacker key" if key else "plaintext+CRC"),),
                                             [0, wit, "%s: %s" % (target, label)])[0] += 1
                    for oracle, sig, msg in mon.violations:
                        viols.setdefault((oracle, sig), [0, wit, "%s: %s | %s" % (target, label, msg)])[0] += 1
                    if mon.evil:
                        viols.setdefault(("promotion", "an application message from an unauthenticated datagram reached the application"), [0, wit, "%s: %s -> %r" % (target, label, mon.evil[:2])])[0] += 1
                    if target == "connecting client" and (w.clients[1].conn.session_key_bytes is not None or w.clients[1].conn.status == ConnectionStatus.CONNECTED):
                        viols.setdefault(("client-auth", "a crafted datagram without any signed hello gives the client a key / connects it"), [0, wit, "%s: %s" % (target, label)])[0] += 1
                finally:
                    w.close()
    return total, dict(outcomes), viols


# ---------------------------------------------------------------------------
# part 2b: after the honest handshake the agreed key and token stay agreed

def rewrite_seq(d, seq, mseq):
    """rewrite the (unsigned) datagram and message sequence numbers of a CRC-form datagram and fix the CRC"""
    body = d[:8] + struct.pack(">H", seq) + d[10:20] + struct.pack(">H", mseq) + d[22:-4]
    return body + struct.pack(">L", binascii.crc32(body) & 0xFFFFFFFF)


def post_handshake_work(arg):
    """handshake-typed datagrams injected AFTER both ends agreed on a key: neither end may change key or token"""
    viols = {}
    total = 0
    other = honest_capture(root_index=ROOT, key_offset=KOFF_OTHER, rnd_seed=3)
    mon = HandshakeMonitor()
    w = World(root_index=ROOT, key_offset=KOFF, monitors=[mon])
    try:
        w.run_until_connected()
        w.run(3)
        c, sc = w.clients[0].conn, w.server_conn(0)
        agreed = (c.session_key_bytes, c.token)
        own = {}
        for x in w.all_sent:
            own.setdefault(x.data[12], x.data)
        cands = []
        for base_label, base in (("signed hello of another session of this server", other["SH"]), ("this session's own signed hello", own[SH])):
            for seq_label, seq in (("fresh seq", int(c.bitfield_pkt.current_seqnum) + 1), ("seq +100", int(c.bitfield_pkt.current_seqnum) + 100), ("original seq", None)):
                for m_label, mseq in (("fresh msg seq", int(c.bitfield_msg.current_seqnum) + 1), ("original msg seq", None)):
                    d = base
                    if seq is not None or mseq is not None:
                        d = rewrite_seq(base, seq if seq is not None else struct.unpack(">H", base[8:10])[0], mseq if mseq is not None else struct.unpack(">H", base[20:22])[0])
                    cands.append(("to client: %s, %s, %s" % (base_label, seq_label, m_label), "c0", d))
        for base_label, base in (("client hello of another session", other["CH"]), ("this session's own client hello", own[CH]), ("challenge response of another session", other["CR"])):
            for seq_label, seq in (("fresh seq", int(sc.bitfield_pkt.current_seqnum) + 1), ("original seq", None)):
                d = base
                if seq is not None and base[12] != CR:
                    d = rewrite_seq(base, seq, int(sc.bitfield_msg.current_seqnum) + 1)
                cands.append(("to server: %s, %s" % (base_label, seq_label), "s", d))
        for label, dst, d in cands:
            total += 1
            if dst == "s":
                w.inject("s", d, client_addr=w.clients[0].addr)
            else:
                w.inject("c0", d)
            w.run(3)
            c2, sc2 = w.clients[0].conn, w.ctxt.connections.get(w.clients[0].addr)
            now = (c2.session_key_bytes, c2.token)
            srv = (sc2.session_key_bytes, sc2.token) if sc2 is not None else None
            if now != agreed or srv != agreed:
                viols.setdefault(("key-agreement", "after an honest handshake a handshake-typed datagram makes an endpoint give up the agreed key/token (%s)" % ("client" if now != agreed else "server")),
                                 [0, {"part": "post-handshake", "label": label}, label])[0] += 1
                break
        mon.check_clients(w, w.root_key.getPublicKey())
        for oracle, sig, msg in mon.violations:
            viols.setdefault((oracle, sig), [0, {"part": "post-handshake"}, msg])[0] += 1
    finally:
        w.close()
    return total, viols


# ---------------------------------------------------------------------------
# part 2c: HISTORIES on one pinned client that is never shown an honest hello.  The parts above show every forged hello
# ONCE to a client that waits for its answer and take the verdict a few frames later; here the client lives on: sequences
# of <= 3 events from {a forged hello (with the original, a fresh datagram, or fresh datagram+message numbers), silence
# of 0.5 s / 2.5 s (> connect timeout) / 6 s (> the 5 s drop rule)} while the application keeps calling update() every
# frame and keeps trying to send.  After every frame: unconnected with no key (oracle (a)), connected()/status() of the
# public API say so too, and no application byte handed to send() appears on the wire in clear.

HIST_VARIANTS = (
    "SH: pubkey=attacker salt=attacker token=this attacker-root-field, signed by the attacker",
    "SH: genuine payload, signature with one bit flipped",
    "SH: empty body",
    "SH: pubkey=attacker salt=this token=this real-root-field, signed by the attacker",
    "SH: attacker key/salt, signature field = empty list",
)
HIST_NUMBERING = ("original numbers", "fresh datagram number, repeated message number", "fresh datagram and message numbers")
HIST_IDLE = (0.5, 2.5, 6.0)
_HIST_FORGERS = None


def hist_forgers():
    global _HIST_FORGERS
    if _HIST_FORGERS is None:
        items, other = forgeries()
        by = {label: fn for label, which, fn in items if which == SH}
        _HIST_FORGERS = {label: by[label] for label in HIST_VARIANTS}     # KeyError = the families above were renamed
    return _HIST_FORGERS


def hist_histories(tier):
    """every sequence of three events (its prefixes are judged on the way); the first hello of a history has nothing to
    be fresh against, so in first position only the original numbering is used"""
    variants = HIST_VARIANTS[:3] if tier == "quick" else HIST_VARIANTS
    idles = [("idle", t) for t in HIST_IDLE]
    first = [("hello", v, 0) for v in variants] + idles
    later = [("hello", v, n) for v in variants for n in range(len(HIST_NUMBERING))] + idles
    return [(a, b, c) for a in first for b in later for c in later]


def hist_label(events):
    return " -> ".join(("forged hello [%s; %s]" % (e[1][4:], HIST_NUMBERING[e[2]])) if e[0] == "hello" else ("%.1f s of silence" % e[1]) for e in events)


def _ptype_name(v):
    try:
        return PacketType(v).name
    except Exception:
        return "%d" % v


def run_history(events):
    """returns (#frames, [(oracle, sig, message)], final client status)"""
    forgers = hist_forgers()
    mon = HandshakeMonitor()
    w = World(root_index=ROOT, key_offset=KOFF, monitors=[mon])
    found = []
    try:
        pinned = w.root_key.getPublicKey()
        ce = w.clients[0]
        # the honest hello is taken off the wire (it is the attacker's template); from then on the server is cut off
        genuine = None
        for _ in range(12):
            w.tick()
            for d in list(w.net):
                if len(d.data) >= 20 and d.data[12] == SH and d.src == "s":
                    genuine = d.data
                    w.net.remove(d)
            if genuine is not None:
                break
        if genuine is None:
            return 0, [("harness", "history: the server never answered the client hello", "")], None
        w.drop_rule = lambda w_, d: d.src == "s"
        seq0, mseq0 = struct.unpack(">H", genuine[8:10])[0], struct.unpack(">H", genuine[20:22])[0]
        fresh = [seq0, mseq0]
        frames = [0]
        secrets = []
        scanned = [len(w.all_sent)]

        def frame(what):
            w.tick()
            frames[0] += 1
            n = len(mon.violations)
            mon.check_clients(w, pinned)
            for v in mon.violations[n:]:
                found.append((v[0], v[1], "%s | %s" % (what, v[2])))
            del mon.violations[n:]
            c = ce.conn
            if ce.client.connected() or ce.client.status() == ConnectionStatus.CONNECTED:
                found.append(("client-auth", "a client that was only ever shown forged hellos reports connected() / status() CONNECTED",
                              "%s | status=%s key=%r" % (what, ce.client.status(), c.session_key_bytes)))
            for x in w.all_sent[scanned[0]:]:
                if x.src == ce.name:
                    for s in secrets:
                        if s in x.data:
                            found.append(("client-auth", "a client that was only ever shown forged hellos puts application data handed to send() on the wire in clear",
                                          "%s | datagram of header type %s, %d bytes, carries %r; client key=%r" % (what, _ptype_name(x.data[12]), len(x.data), s, c.session_key_bytes)))
            scanned[0] = len(w.all_sent)

        for i, ev in enumerate(events):
            what = "after event %d of: %s" % (i + 1, hist_label(events))
            if ev[0] == "idle":
                for _ in range(int(round(ev[1] / w.dt))):
                    frame(what)
            else:
                data = forgers[ev[1]](genuine)
                if ev[2] >= 1:
                    fresh[0] += 1
                    mseq = mseq0
                    if ev[2] == 2:
                        fresh[1] += 1
                        mseq = fresh[1]
                    data = rewrite_seq(data, fresh[0], mseq)
                w.inject(ce.name, data)
                for _ in range(4):
                    frame(what)
            # what the application does next, whatever it believes: try to send
            s = b"password=hunter2/%d" % i
            secrets.append(s)
            try:
                ce.client.send(s)
            except Exception:
                pass
            for _ in range(3):
                frame(what + ", then send()")
        return frames[0], found, ce.conn.status.value
    finally:
        w.close()


def history_work(chunk):
    viols = {}
    outcomes = core.Counter()
    total = 0
    frames = 0
    for events in chunk:
        total += 1
        n, found, status = run_history(events)
        frames += n
        outcomes.inc("final client status %s" % status)
        seen = set()
        for oracle, sig, msg in found:
            if (oracle, sig) in seen:
                continue        # one count per history, not per frame
            seen.add((oracle, sig))
            viols.setdefault((oracle, sig), [0, {"part": "history", "events": [list(e) for e in events]}, msg])[0] += 1
    return total, frames, dict(outcomes), viols


# ---------------------------------------------------------------------------
# part 3: schedules

def scenario(params, ch):
    n_clients, cross, order, latency = params
    mon = HandshakeMonitor()
    # "slow": an honest link whose round trip (2 x latency) is longer than the client's connect timeout (2 s) while the
    # server keeps half-open connections for longer (8 s): the server hello is answered late, everything else is ordinary
    slow = cross == "slow"
    if slow:
        cross = None
    w = World(n_clients=n_clients, root_index=ROOT, key_offset=KOFF, order=order, latency=latency, chooser=ch, monitors=[mon],
              server_cfg=({"setTempConnectionTimeout": 8.0} if slow else None),
              fates=[] if cross == "reconnect" else ["drop", "dup"] if slow else ["drop", "dup", "delay2", "delay8", "dupdelay2", "dupdelay6"])
    try:
        # the hellos emitted inside World() were emitted before fates could be asked? no: fates are set in the constructor
        pinned = w.root_key.getPublicKey()
        swapped = [False]
        for t in range(40 if not slow else 4 * latency + 60):
            w.tick()
            if cross and not swapped[0]:
                hs = handshake_datagrams(w)
                if cross == "SH" and len(hs.get(SH, [])) == 2:
                    a, b = hs[SH]
                    a.dst, b.dst = b.dst, a.dst
                    swapped[0] = True
                if cross == "CR" and len(hs.get(CR, [])) == 2:
                    a, b = hs[CR]
                    a.client_addr, b.client_addr = b.client_addr, a.client_addr
                    swapped[0] = True
                if cross == "CR-data" and len(hs.get(CR, [])) == 2:
                    a, b = hs[CR]
                    a.data, b.data = b.data, a.data
                    swapped[0] = True
            mon.check_clients(w, pinned)
            if t == (12 if not slow else 3 * latency + 10):
                w.fates = []
        if cross == "reconnect":
            # second session on the SAME UdpClient object: graceful disconnect, then connect() again under faults
            first = [(ce.conn.session_key_bytes, ce.conn.token) for ce in w.clients]
            for ce in w.clients:
                ce.client.disconnect()
            w.run(12)
            for ce in w.clients:
                ce.client.forceDisconnect()
            w.run(2)
            mon.last_sh.clear()
            mon.all_sh.clear()
            w.fates = ["drop", "dup", "delay2", "delay8", "dupdelay2", "dupdelay6"]
            for ce in w.clients:
                w.client_reconnect(ce.index)
            for t in range(40):
                w.tick()
                mon.check_clients(w, pinned)
                if t == 12:
                    w.fates = []
            for ce, (k0, tok0) in zip(w.clients, first):
                if ce.conn.session_key_bytes is not None and ce.conn.session_key_bytes == k0:
                    ch.flag("key-agreement", "a second connect() of the same client object ends up with the key of the previous session", "client %d" % ce.index)
        ch.steps = w.tickno
        res = []
        for ce in w.clients:
            c = ce.conn
            sc = w.ctxt.connections.get(ce.addr)
            res.append((c.status.value, c.session_key_bytes is not None, sc is not None))
            if sc is not None and c.session_key_bytes is not None and c.status == ConnectionStatus.CONNECTED:
                if sc.session_key_bytes != c.session_key_bytes or len(sc.session_key_bytes) != 16 or sc.token != c.token:
                    ch.flag("key-agreement", "both ends completed the handshake but keys/tokens differ", "client %d" % ce.index)
            # a client that adopted a key: whatever the server holds for that address (half-open or connected) has the same one
            anyc = sc or w.ctxt.temp_connections.get(ce.addr)
            if (c.status == ConnectionStatus.CONNECTED and c.session_key_bytes is not None and anyc is not None and not cross
                    and anyc.session_key_bytes is not None and anyc.session_key_bytes != c.session_key_bytes):
                ch.flag("key-agreement", "the client completed the handshake but the server holds a different key for its address (duplicated / reordered handshake datagrams)",
                        "client %d: client key %s..., server (%s) key %s..." % (ce.index, c.session_key_bytes[:4].hex(), "connected" if sc else "half-open", anyc.session_key_bytes[:4].hex()))
            if w.fault_free and not cross and (sc is None or c.status != ConnectionStatus.CONNECTED):
                ch.flag("honest-handshake", "an honest, fault free handshake does not complete", "client %d status %s" % (ce.index, c.status))
        ch.outcome = (tuple(res), len(mon.connected))
    finally:
        for v in mon.violations:
            ch.flag(*v)
        w.close()


def run(tier, seed):
    rep = core.Report()
    acc = {}

    def fold(viols):
        for key, (cnt, wit, msg) in viols.items():
            if key not in acc:
                acc[key] = [0, wit, msg]
            acc[key][0] += cnt

    items = byte_mutants(tier)
    if seed:
        k = seed % len(items)
        items = items[k:] + items[:k]
    chunks = [items[i::64] for i in range(64) if items[i::64]]
    res = core.pmap("checks.c02", "bytes_work", chunks, initargs=(tier,))
    n_bytes = sum(r[0] for r in res)
    outcomes = core.Counter()
    for r in res:
        for k, v in r[1].items():
            outcomes.inc(k, v)
        fold(r[2])
    res = core.pmap("checks.c02", "forgery_work", [(k, 16) for k in range(16)])
    n_forg = sum(r[0] for r in res)
    f_out = core.Counter()
    for r in res:
        for k, v in r[1].items():
            f_out.inc(k, v)
        fold(r[2])
    res = core.pmap("checks.c02", "bundle_work", [(k, 16) for k in range(16)])
    n_bundle = sum(r[0] for r in res) // 16
    b_out = core.Counter()
    for r in res:
        for k, v in r[1].items():
            b_out.inc(k, v)
        fold(r[2])
    res = core.pmap("checks.c02", "post_handshake_work", [0])
    n_post = sum(r[0] for r in res)
    for r in res:
        fold(r[1])
    hist = hist_histories(tier)
    if seed:
        k = seed % len(hist)
        hist = hist[k:] + hist[:k]
    res = core.pmap("checks.c02", "history_work", [hist[i::64] for i in range(64) if hist[i::64]])
    n_hist = sum(r[0] for r in res)
    n_hist_frames = sum(r[1] for r in res)
    h_out = core.Counter()
    for r in res:
        for k, v in r[2].items():
            h_out.inc(k, v)
        fold(r[3])
    plist = [(1, None, o, l) for o, l in (("cs", 1), ("sc", 0), ("cs", 0), ("sc", 1))]
    plist += [(2, None, "cs", 1), (2, "SH", "cs", 1), (2, "CR", "cs", 1), (2, "CR-data", "cs", 1)]
    plist += [(1, "reconnect", "cs", 1), (1, "reconnect", "sc", 0)]
    plist += [(1, "slow", "cs", 70), (1, "slow", "cs", 100)] + ([(1, "slow", "sc", 66), (2, "slow", "cs", 80)] if tier == "thorough" else [])
    if tier == "thorough":
        plist += [(2, None, "sc", 0), (2, "SH", "sc", 0), (2, "CR", "sc", 0), (2, "CR-data", "sc", 0), (3, None, "cs", 1)]
    st = explore.explore_all("checks.c02", "scenario", plist, 2 if tier == "quick" else 3, time_budget=(900 if tier == "quick" else 3000))
    sig_counts = getattr(st, "sig_counts", {})
    for v in st.violations:
        key = (v["oracle"], v["sig"])
        if key not in acc:
            acc[key] = [sig_counts.get(key, 1), {"part": "schedules", "params": v["params"], "choices": v["choices"], "labels": v["labels"]},
                        v["message"] + " | params=%r deviations=%r" % (v["params"], v["labels"])]
    for (oracle, sig), (cnt, wit, msg) in sorted(acc.items()):
        rep.add_violation(core.Violation(oracle, sig, wit, "%s [%d cases]" % (msg[:400], cnt)))
    accepted = sum(v for k, v in outcomes.items() if "(2, True, True" in k)
    rep.coverage = {
        "states": st.points + n_bytes + n_forg, "transitions": st.steps + 14 * (n_bytes + n_forg), "traces_validated_against_impl": st.executions + n_bytes + n_forg,
        "byte_mutants": n_bytes, "byte_mutant_outcomes": dict(outcomes), "byte_mutants_still_connecting_both_ends": accepted,
        "forgeries": n_forg, "forgery_outcomes": dict(f_out), "post_handshake_injections": n_post, "crafted_single_datagrams": n_bundle, "crafted_outcomes": dict(b_out),
        "forged_hello_histories": n_hist, "forged_hello_history_frames": n_hist_frames, "forged_hello_history_outcomes": dict(h_out),
        "forged_hello_history_alphabet": {"hello_variants": len(HIST_VARIANTS[:3] if tier == "quick" else HIST_VARIANTS), "numberings": list(HIST_NUMBERING),
                                          "silence_seconds": list(HIST_IDLE), "events_per_history": 3},
        "schedule_executions": st.executions, "schedule_by_deviations": st.by_cost, "schedule_configurations": len(plist), "schedule_capped": st.capped,
        "evaluations": n_bytes + n_forg + n_post + n_bundle + n_hist + st.executions, "distinct_nontrivial": len(outcomes) + len(f_out) + len(st.outcomes),
        "rule": "one fresh real handshake per substitution; outcomes = (client status, client has key, server promoted, #connect events); "
                "byte mutants that still complete the handshake only touch unsigned header bytes (oracle (a) holds for them)",
        "exhaustive": not st.capped,
        "samples": [{"bytes": {"datagram": "SH", "pos": 141, "xor": 128, "crc_fix": True}},
                    {"forgery": "SH: pubkey=attacker salt=this token=this real-root-field, signed by the attacker"}] + st.samples[:2],
    }
    rep.assumptions = ["ECDSA/ECDH/HKDF/AES-GCM trusted; forgeries are built from everything except the two private keys",
                       "a replayed genuinely signed hello of another session satisfies (a) by the statement's wording (the client cannot derive the same key as the server and is never promoted)"]
    return rep


def replay(witness):
    part = witness.get("part")
    if part == "bytes":
        bytes_work_init("quick")
        which = {"SH": SH, "CR": CR, "CH": CH}[witness["datagram"]]
        total, outcomes, viols = bytes_work([(witness["datagram"], which, witness["pos"], witness["xor"], witness["crc_fix"])])
        return [core.Violation(k[0], k[1], witness, v[2]) for k, v in viols.items()]
    if part == "bundle":
        out = []
        for k in range(16):
            total, outcomes, viols = bundle_work((k, 16))
            out += [core.Violation(kk[0], kk[1], v[1], v[2]) for kk, v in viols.items() if v[1].get("target") == witness["target"] and v[1].get("index") == witness["index"] and v[1].get("form") == witness["form"]]
        return out
    if part == "post-handshake":
        total, viols = post_handshake_work(0)
        return [core.Violation(k[0], k[1], witness, v[2]) for k, v in viols.items()]
    if part == "history":
        n, found, status = run_history([tuple(e) for e in witness["events"]])
        seen, out = set(), []
        for o, s, m in found:
            if (o, s) not in seen:
                seen.add((o, s))
                out.append(core.Violation(o, s, witness, m))
        return out
    if part == "schedules":
        ch = explore.replay_choices(scenario, _tup(witness["params"]), witness["choices"])
        return [core.Violation(o, s, witness, m) for o, s, m in ch.found]
    if part == "forgery":
        out = []
        for k in range(16):
            pass
        total, outcomes, viols = forgery_work((0, 1))
        return [core.Violation(k[0], k[1], witness, v[2]) for k, v in viols.items() if v[1].get("label") == witness.get("label")]
    return []


def _tup(x):
    if isinstance(x, list):
        return tuple(_tup(i) for i in x)
    return x
