"""C05 - guaranteed sends are eventually delivered, every size, both APIs.

Engine A on the full stack.  Part "sizes": every boundary length x MTU x API
x direction, honest run and every single loss of a datagram of the first
transmission rounds.  Part "loss": a few representative sizes under every
<=2-deviation schedule of drop / dup / delay (8, 70 ticks) plus blackouts of
either direction (parameters), then a healed network.

Oracle: after the last deviation the network is honest; the message must be
in the peer application's log within HORIZON virtual seconds (>= 5 full retry
rounds) provided both ends are still CONNECTED.  A sender that has gone
quiescent without delivery is reported as 'silently-unsent', one that is still
retransmitting as 'not-delivered-within-horizon'.  Exceptions from a send API
are violations.
"""
import struct

from mc import core, explore, lap
from mc.world import World, Monitor
from mc.pair import DeliveryMonitor, app_send, payload, quiescent, add_bystander
from mpgameserver.connection import Packet, ConnectionStatus, ConnectionBase, FragmentSender

PROPERTY = "C05"
LEVEL = "model_checking"

APIS = {
    "c.send_guaranteed": ("c", "send_guaranteed"),
    "c.send(retry=-1)": ("c", "send"),
    "s.send_guaranteed": ("s", "send_guaranteed"),
    "s.send(RETRY_ON_TIMEOUT)": ("s", "send"),
}
HORIZON_S = 6.0


class ExpiryWatch(Monitor):
    """observes, per received fragment, what happens to the partial reassembly contexts of the receiving endpoint:
    a context that loses fragments it already held (and that had been acked) without its message completing.
    Wraps ConnectionBase._recvAppFragment for the duration of one execution."""

    def __init__(self):
        Monitor.__init__(self)
        self.events = set()
        self.gap = {}
        self.w = None
        self.orig = ConnectionBase.__dict__["_recvAppFragment"]
        watch = self

        def wrapper(conn, msgseq, fragment):
            try:
                own = FragmentSender.parsePayload(fragment)[0]
            except Exception:
                own = None
            before = watch.snap(conn)
            try:
                return watch.orig(conn, msgseq, fragment)
            finally:
                after = watch.snap(conn)
                for fid, held in before.items():
                    if not held:
                        continue
                    if fid != own and fid not in after:
                        silent = watch.gap.get(id(conn), 0.0) > conn.outgoing_timeout
                        w_ = watch.w
                        lossless = w_ is not None and not any((d.note or "").startswith(("lost", "drop")) for d in w_.all_sent)
                        watch.events.add("the arrival of a fragment of ANOTHER message expired the context " +
                                         ("right after the link had been silent for longer than the message timeout" if silent else
                                          "although NO datagram was lost (the missing fragments were still waiting in the sender's queue)" if lossless else
                                          "while datagrams kept arriving (selective loss of the missing fragment for longer than 1 + count/2 s)"))
                    elif fid == own and fid in after and not (held <= after[fid]):
                        watch.events.add("a late fragment of the SAME message found its context expired and started an empty one")
        ConnectionBase._recvAppFragment = wrapper

    def close(self):
        ConnectionBase._recvAppFragment = self.orig

    def before_recv(self, w, conn, hdr, datagram):
        # time since this endpoint last heard from its peer, for the datagram now being processed
        self.gap[id(conn)] = (w.vt.now - conn.last_recv_time) if conn.last_recv_time > 0 else 0.0
        self.w = w
        return None

    @staticmethod
    def snap(conn):
        return {fid: frozenset(i for i, f in enumerate(r.fragments) if f is not None) for fid, r in conn.received_fragments.items()}


def caps(mtu):
    """(P, F) = MAX_PAYLOAD_SIZE and MAX_FRAGMENT_SIZE at that MTU, computed from the documented formulae"""
    P = mtu - 28 - 20 - 16 - 2
    F = 1024 if P >= 1024 + 6 else P - 6
    return P, F


def boundary_sizes(mtu, tier):
    P, F = caps(mtu)
    r = 6 if tier == "thorough" else 2
    centers = [P, P - 6, F, 2 * F, 3 * F, F + (P - 6), 2 * F + (P - 6)]
    out = {0, 1, 2}
    for c in centers:
        for d in range(-r, r + 1):
            if c + d >= 0:
                out.add(c + d)
    return sorted(out)


def scenario(params, ch):
    api, size, mtu, fates, blackout, other, order, latency, window = params
    sender, method = APIS[api]
    mon = DeliveryMonitor(flag_delivery=False)
    watch = ExpiryWatch()
    opts = order.split("|")[1:]     # "cs|dt60": 60 Hz frames; "cs|ka0.5": keep-alive (= resend delay) 0.5 s on both ends
    order = order.split("|")[0]
    ka = next((float(o[2:]) for o in opts if o.startswith("ka")), None)
    hist = next((int(o[4:]) for o in opts if o.startswith("hist")), None)
    if hist:
        Packet.setMTU(hist)       # the process configured another MTU before (setMTU writes process-wide state)
    try:
        w = World(n_clients=(2 if "by" in opts else 1), order=order, latency=latency, chooser=ch, monitors=[mon, watch], mtu=mtu, dt=(1.0 / 60 if "dt60" in opts else 0.02 if "dt50" in opts else 1.0 / 64),
                  server_cfg=({"setKeepAliveInterval": ka} if ka else None), client_cfg=({"setKeepAliveInterval": ka} if ka else None))
    except BaseException:
        watch.close()
        raise
    try:
        w.run_until_connected()
        w.run(2)
        if "wrap" in opts:
            w.run(4)
            w.preset_near_wrap()
        if "by" in opts:
            add_bystander(w, mon)     # a second client of the same server exchanging traffic of every kind, perfect link
            w.run(3)
        data = payload(1, size)
        w.fates = list(fates)
        bidi = other[1] if isinstance(other, (tuple, list)) and other[0] == "bidi" else None
        peer = "s" if sender == "c" else "c"

        def bidi_tick(k):
            # both ends send a small unretried message every tick: datagram numbers advance and acks flow every tick
            app_send(w, mon, sender, b"u" + struct.pack(">H", k), "none")
            app_send(w, mon, peer, b"d" + struct.pack(">H", k), "none")
            w.tick()
        if bidi is not None:
            for k in range(bidi):
                bidi_tick(k)
        if other == "last-in-datagram":
            # queued in the same frame behind other messages: the guaranteed message is the LAST of the datagram
            app_send(w, mon, sender, payload(2, 25), "none")
            app_send(w, mon, sender, payload(4, 23), "best")
        if isinstance(other, str) and other.startswith("raising-neighbour"):
            # an application callback that misbehaves: a best-effort (or unretried) message queued FIRST in the same frame
            # has a callback that raises when told False / whenever called; it shares every datagram with the guaranteed one
            nb_mode, nb_retry = {"raising-neighbour": (False, "best"), "raising-neighbour-always": ("always", "best"), "raising-neighbour-none": (False, "none")}[other]
            w.cb_raise["nb"] = nb_mode
            app_send(w, mon, sender, payload(5, 21), nb_retry, tag="nb")
        big = None
        if other == "behind-transfer":
            # a long guaranteed transfer is queued first; the message under test is sent in the same frame and has to wait its turn
            big = payload(9, 160 * 1024)
            app_send(w, mon, sender, big, "retry", tag="g0", api=method)
        e = app_send(w, mon, sender, data, "retry", tag="g", api=method)
        if e is not None:
            ch.flag("send-raises", "%s raises %s" % (api, type(e).__name__), "%s(len %d) raised %r" % (api, size, e))
            return
        wanted = [data] + ([big] if big is not None else [])
        if other == "behind-transfer":
            pass
        elif other == "frag":
            # a second guaranteed fragmented message in flight at the same time: both must arrive
            second = payload(7, max(size, 1600) + 100)
            wanted.append(second)
            e2 = app_send(w, mon, sender, second, "retry", tag="g2", api=method)
            if e2 is not None:
                ch.flag("send-raises", "%s raises %s" % (api, type(e2).__name__), repr(e2))
        elif isinstance(other, str) and other.startswith("raising-neighbour"):
            pass
        elif other in ("last-in-datagram", "first-in-datagram"):
            if other == "first-in-datagram":
                app_send(w, mon, sender, payload(2, 25), "none")
                app_send(w, mon, sender, payload(4, 23), "retry")
        elif other == "burst":
            # the message leaves alone in its datagram, then the same sender bursts 300 tiny messages:
            # a retransmission of the guaranteed message arrives behind >256 newer message numbers
            w.run(1)
            for k in range(300):
                app_send(w, mon, sender, b"%c" % (k % 251), "none")
        elif bidi is not None:
            pass
        elif other:
            # unrelated traffic in the same and the opposite direction
            app_send(w, mon, sender, payload(2, 30), "none")
            app_send(w, mon, "s" if sender == "c" else "c", payload(3, 30), "best")
        stall = next((float(o[5:]) for o in opts if o.startswith("stall")), None)
        if stall:
            # the owner transmits once and then does not call update for longer than the message timeout (a blocking
            # load, a slow handler.update): the lone transmission times out while nothing was resent yet
            sc_ = w.clients[0].conn if sender == "c" else w.server_conn(0)
            w.run(12, lambda w_: not sc_.outgoing_messages)     # until everything has been transmitted exactly once
            w.tick(dt=stall)
        if blackout and blackout[0] == "hole":
            # an MTU black hole in the data direction: datagrams above the threshold are lost for ``ticks`` ticks while
            # keep-alives, acks and small fragments keep arriving (the link is never silent)
            _, start, ticks, larger_than = blackout
            w.run(start)
            w.start_blackhole("c2s" if sender == "c" else "s2c", ticks, larger_than)
            if other in ("stream", "stream+frag"):
                # the application keeps sending small unretried messages: they travel in datagrams of their own
                # whenever the lost fragment is not due for a resend, so the receiver keeps hearing from its peer
                for k in range(ticks + 2):
                    app_send(w, mon, sender, b"bg%c" % (k % 251), "none")
                    if other == "stream+frag" and k == ticks - 8:
                        # shortly before the hole closes a second fragmented guaranteed message is sent: its small last
                        # fragment gets through at once
                        second = payload(7, size)
                        wanted.append(second)
                        app_send(w, mon, sender, second, "retry", tag="g2", api=method)
                    w.tick()
            else:
                w.run(max(0, window - start))
        elif blackout:
            direction, start, ticks = blackout
            if direction == "data":
                direction = "c2s" if sender == "c" else "s2c"
            w.run(start)
            w.start_blackout(direction, ticks)
            w.run(max(0, window - start))
        elif bidi is not None:
            for k in range(window):
                bidi_tick(1000 + k)
        else:
            w.run(window)
        w.fates = []  # healed
        heal_tick = max([w.tickno] + list(w.blackout.values()) + [h[0] for h in w.blackhole.values()] + [d.release_tick for d in w.net])
        nfrag = max(1, sum(len(x) for x in wanted) // 1000)
        horizon = heal_tick + int((HORIZON_S + nfrag * 2.0 / 64) / w.dt)
        recv = "s" if sender == "c" else "c"

        def done(w):
            return all(mon.delivered[recv].get(x, 0) >= 1 for x in wanted)
        delivered = done(w) or w.run(horizon - w.tickno, done)
        ch.steps = w.tickno
        c_ok = w.clients[0].conn is not None and w.clients[0].conn.status == ConnectionStatus.CONNECTED
        s_ok = w.server_conn(0) is not None and w.server_conn(0).status == ConnectionStatus.CONNECTED
        ch.outcome = (delivered, c_ok, s_ok, w.tickno - heal_tick if delivered else None)
        if w.exceptions:
            ch.flag("exception", "exception in %s" % w.exceptions[0][0], repr(w.exceptions[:2]))
        if not delivered and c_ok and s_ok:
            P, F = caps(mtu)
            cls = size_class(size, P, F)
            if watch.events:
                # the receiver threw away fragments it had acknowledged (they are never sent again)
                cls += " [receiver discarded acked fragments of a partially received message: %s]" % "; ".join(sorted(watch.events))
            if quiescent(w):
                ch.flag("silently-unsent", "guaranteed message forgotten by the sender, never delivered: %s" % cls,
                        "%s len=%d mtu=%d: sender quiescent, peer never got it" % (api, size, mtu))
            else:
                ch.flag("not-delivered-within-horizon", "guaranteed message still undelivered %.0f s after the network healed: %s" % (HORIZON_S, cls),
                        "%s len=%d mtu=%d: still pending after horizon; outgoing=%d retry_msg=%d" % (
                            api, size, mtu, len((w.clients[0].conn if sender == 'c' else w.server_conn(0)).outgoing_messages),
                            len((w.clients[0].conn if sender == 'c' else w.server_conn(0)).pending_retry_msg)))
    finally:
        watch.close()
        for v in mon.violations:
            ch.flag(*v)
        w.close()
        if hist:
            Packet.setMTU(1500)


# ---------------------------------------------------------------------------
# part "threads": the server-side client object is the API game code uses from wherever it runs.  Two real threads -
# the server thread inside ServerClientConnection.update() (packet build, timeouts, re-queueing) and an application
# thread inside send_guaranteed()/send() on the SAME object - under every schedule with <= 1 (quick) / 2 preemptions at
# line granularity (CPython 3.12.1 delivers no per-bytecode trace events, so lines are the finest step).  Afterwards the link is perfect: every message is
# delivered exactly once and every guaranteed callback fires exactly once with True.

def thread_scenario(params, ch):
    from mc import threads, seams
    from mpgameserver.connection import ServerClientConnection, PacketHeader, RetryMode
    from mpgameserver.context import ServerContext
    from mpgameserver.handler import EventHandler
    t1_op, t2_op, first, queued, opcodes = params
    KEY = bytes(range(32, 48))
    now = [5000.0]
    ctxt = ServerContext(EventHandler(), seams.fixture_keys()[0])
    srv = ServerClientConnection(ctxt, ("10.0.0.5", 5))
    cli = ConnectionBase(False, ("10.0.0.5", 5))
    for c in (srv, cli):
        c.clock = lambda: now[0]
        c.session_key_bytes = KEY
        c.status = ConnectionStatus.CONNECTED
    got = {}
    cbs = {}
    sent = {}

    def mk(tag):
        return lambda ok: cbs.setdefault(tag, []).append(bool(ok))

    def srv_send(tag, size, guaranteed):
        data = payload(len(sent) + 1, size)
        sent[tag] = (data, guaranteed)
        if guaranteed:
            srv.send_guaranteed(data, callback=mk(tag))
        else:
            srv.send(data, retry=RetryMode.NONE, callback=mk(tag))

    def to_client(r):
        if r:
            pkt, key, addr = r
            d = pkt.to_bytes(key)
            cli._recv_datagram(PacketHeader.from_bytes(False, d), d)
            for seq, m in cli.incoming_messages:
                got[m] = got.get(m, 0) + 1
            cli.incoming_messages = []

    def client_frame(deliver=True):
        pkt = cli._build_packet()
        if pkt is not None and deliver:
            d = cli._encode_packet(pkt)
            srv._recv_datagram(PacketHeader.from_bytes(True, d), d)
            srv.incoming_messages = []
        cli._check_timeout(now[0])

    # warm-up: a few exchanged frames, then the messages that are queued before the race
    for _ in range(3):
        now[0] += 0.02
        to_client(srv.update())
        client_frame()
    for i, (size, g) in enumerate(queued):
        srv_send("q%d" % i, size, g)
    held = []
    if t1_op == "timeout-update":
        # the queued messages go out once, the datagram is lost, and the server thread's next update() is the one in
        # which it times out (RetrySender re-queues) - that update races with the application thread
        now[0] += 0.02
        srv.update()
        now[0] += 1.2
    elif t1_op == "ack-update":
        now[0] += 0.02
        r = srv.update()
        to_client(r)
        now[0] += 0.02
        pkt = cli._build_packet()
        held.append(cli._encode_packet(pkt) if pkt is not None else None)
        now[0] += 0.02
    else:
        now[0] += 0.02
    out = []

    def body1():
        if held and held[0] is not None:
            srv._recv_datagram(PacketHeader.from_bytes(True, held[0]), held[0])
        out.append(srv.update())

    def body2():
        size, g = {"guaranteed-40": (40, True), "plain-40": (40, False), "guaranteed-2000": (2000, True), "guaranteed-0": (0, True)}[t2_op]
        srv_send("t2", size, g)

    tt = threads.TwoThreads(ch, ("mpgameserver/connection.py",), opcodes=opcodes)
    errs = tt.run(body1, body2, first=first)
    for tid, e in enumerate(errs):
        if e is not None:
            ch.flag("thread-exception", "%s raises %s when the server thread and an application thread interleave" % (
                "ServerClientConnection.update()" if tid == 0 else "send on the server-side client object", type(e).__name__), repr(e))
            return
    for r in out:
        to_client(r)
    # perfect link from here on
    for _ in range(400):
        now[0] += 0.02
        to_client(srv.update())
        client_frame()
        if all(got.get(d, 0) >= 1 for d, g in sent.values()) and not srv.outgoing_messages and not srv.pending_retry_msg and not srv.pending_acks:
            break
    ch.steps = tt.points
    res = tuple(sorted((tag, got.get(d, 0), tuple(cbs.get(tag, []))) for tag, (d, g) in sent.items()))
    ch.outcome = res
    for tag, (d, g) in sorted(sent.items()):
        n = got.get(d, 0)
        if g and n < 1:
            ch.flag("silently-unsent", "a guaranteed message sent from an application thread while the server thread was inside update() is never delivered (perfect link)",
                    "message %s (%d bytes): delivered %d times, callbacks %r, still queued %d, awaiting retry %d" % (
                        tag, len(d), n, cbs.get(tag), len(srv.outgoing_messages), len(srv.pending_retry_msg)))
        elif not g and n < 1 and not (t1_op == "timeout-update" and tag != "t2"):     # (the scenario itself lost that datagram)
            ch.flag("silently-unsent", "an unretried message sent from an application thread while the server thread was inside update() never leaves the queue (perfect link)",
                    "message %s: delivered %d times" % (tag, n))
        if n > 1:
            ch.flag("thread-duplicate", "a message sent while the server thread was inside update() is delivered more than once", "message %s: %d times" % (tag, n))
        if g and cbs.get(tag, []) != [True] and n >= 1:
            ch.flag("thread-callback", "guaranteed send racing with update(): callback not exactly once True", "message %s: %r" % (tag, cbs.get(tag)))


def thread_params(tier):
    out = []
    queues = [((40, True),), ((40, False), (30, True)), ((2000, True),), ()]
    for t1 in ("update", "timeout-update", "ack-update"):
        for t2 in ("guaranteed-40", "plain-40", "guaranteed-2000", "guaranteed-0"):
            for q in queues:
                if t1 != "update" and not q:
                    continue
                if tier == "quick" and (t2 == "guaranteed-0" or (t2 == "plain-40" and t1 != "update") or (q == ((2000, True),) and t2 == "guaranteed-2000")):
                    continue
                for first in (0, 1):
                    out.append((t1, t2, first, q, False))
    return out


def size_class(size, P, F):
    if size <= P:
        return "single datagram, len = P%+d" % (size - P) if size > P - 8 else "single datagram"
    n_full, last = divmod(size, F)
    return "fragmented"


def params_list(tier):
    out = []
    mtus = [512, 1095, 1096, 1500] if tier == "quick" else [512, 600, 1000, 1094, 1095, 1096, 1097, 1098, 1200, 1499, 1500]
    # part "sizes": honest + every single drop in the first rounds
    for mtu in mtus:
        for size in boundary_sizes(mtu, tier):
            for api in APIS:
                if tier == "quick" and api in ("c.send(retry=-1)", "s.send(RETRY_ON_TIMEOUT)") and size not in (0, caps(mtu)[0]):
                    continue
                out.append((api, size, mtu, ("drop",), None, False, "cs", 1, 4))
    # the guaranteed message shares its datagram with others, as the first / the last message
    for api in APIS:
        for size in (0, 1, 2, 40, caps(1500)[0] - 30):
            for pos in ("last-in-datagram", "first-in-datagram"):
                out.append((api, size, 1500, ("drop",), None, pos, "cs", 1, 4))
    # a datagram-mate whose application callback raises, outages around and beyond the message timeout
    for api in APIS:
        for size in ((40, 2500) if tier == "quick" else (0, 40, caps(1500)[0] - 40, 2500)):
            for nb in ("raising-neighbour", "raising-neighbour-always", "raising-neighbour-none"):
                for b in (None, ("both", 0, 77), ("both", 0, 160), ("data", 0, 160)):
                    if tier == "quick" and (nb != "raising-neighbour" and (b is None or b[0] == "data")):
                        continue
                    out.append((api, size, 1500, ("drop",), b, nb, "cs", 1, 8))
    # the resend (keep-alive) interval is LONGER than the message timeout: only one copy is ever in flight, every
    # retransmission hangs on the timeout callback alone; outages that swallow the message once, twice, three times
    for api in (APIS if tier == "thorough" else ("c.send_guaranteed", "s.send_guaranteed")):
        for size in (0, 40, 2500):
            for ka in ("cs|ka2.0", "cs|ka1.5") if tier == "thorough" or size != 0 else ("cs|ka2.0",):
                for b in (("both", 0, 70), ("both", 0, 160), ("data", 0, 230), ("both", 1, 100)):
                    out.append((api, size, 1500, ("drop",), b, False, ka, 1, 8))
    # part "loss": representative sizes, richer fates, blackouts, other traffic
    reps = [(1500, 40), (1500, 1434), (1500, 2500), (512, 700), (1500, 3200)]
    fates = ("drop", "dup", "delay8", "delay70")
    blackouts = [None, ("c2s", 0, 13), ("s2c", 0, 13), ("both", 1, 77), ("s2c", 2, 160), ("c2s", 3, 160)]
    for mtu, size in reps:
        for api in ("c.send_guaranteed", "s.send_guaranteed"):
            for b in blackouts:
                for other in (False, True, "burst"):
                    cfgs = [("cs", 1)] if tier == "quick" else [("cs", 1), ("sc", 0), ("sc", 1), ("cs", 0)]
                    if b is None and other in (False, True):
                        cfgs = cfgs + ([("cs", 8)] if tier == "quick" else [("cs", 8), ("sc", 20)])   # RTT > resend interval
                    if other is False and (b is None or b[2] >= 77):
                        cfgs = cfgs + [("cs|dt60", 1), ("cs|ka0.5", 1)] + ([("sc|dt60", 0), ("cs|ka1.0", 1)] if tier == "thorough" else [])
                    for order, latency in cfgs:
                        if tier == "quick" and other and b is not None:
                            continue
                        if other == "burst" and (size > 2600 or (tier == "quick" and mtu != 1500)):
                            continue
                        out.append((api, size, mtu, fates, b, other, order, latency, 8))
            # two fragmented guaranteed messages in flight + an outage of the data direction longer than the
            # receiver-side expiry (1 + n/2 s), starting after the first fragments went out
            if size > 1434 or mtu == 512:
                for b in (("data", 8, 150), ("data", 8, 200), ("data", 6, 100)):
                    if tier == "quick" and (b[2] != 200 or mtu != 1500):
                        continue
                    out.append((api, size, mtu, ("drop", "delay8"), b, "frag", "cs", 1, 10))
    # the client's socket refuses one send (sendto raises inside update()): the datagram never left, the message is still owed
    for api in ("c.send_guaranteed", "c.send(retry=-1)"):
        for size in ((0, 40, 1434, 2500) if tier == "quick" else (0, 1, 40, 1434, 1435, 2500, 5000)):
            for other in (False, True):
                out.append((api, size, 1500, ("sendfail",), None, other, "cs", 1, 8))
                if tier == "thorough":
                    out.append((api, size, 1500, ("sendfail", "drop"), ("s2c", 0, 13), other, "cs", 1, 8))
    # the message is queued behind a long guaranteed transfer (no faults at all): whatever order the fragments leave in, it arrives
    for api in ("c.send_guaranteed", "s.send_guaranteed"):
        for size in ((2049, 2148, 3172) if tier == "quick" else (1435, 2049, 2148, 2500, 3172, 4200, 5000)):
            out.append((api, size, 1500, (), None, "behind-transfer", "cs|dt50", 1, 8))
    # a second client of the same server exchanges traffic of every kind all the time
    for api in APIS:
        for size in ((40, 2500) if tier == "quick" else (0, 40, 1434, 1435, 2500, 5000)):
            for b in (None, ("data", 0, 20), ("s2c", 0, 13) if api[0] == "c" else ("c2s", 0, 13)):
                out.append((api, size, 1500, ("drop",), b, False, "cs|by", 1, 8))
    # the MTU was configured to something else before (512 then 1000, 512 then 512, 576 then 800, 1000 then 512)
    for api in ("c.send_guaranteed", "s.send_guaranteed"):
        for h, mtu in ((512, 1000), (512, 512), (576, 800), (1000, 512), (512, 1095)):
            for size in (caps(mtu)[0] + 1, 3 * caps(mtu)[1] + 17, 40):
                out.append((api, size, mtu, ("drop",), None, False, "cs|hist%d" % h, 1, 4))
    # an owner stall longer than the message timeout right after the first transmission
    for api in APIS:
        for size in (0, 40, 1434, 1435, 2500):
            for o in (("cs|stall1.5",) if tier == "quick" else ("cs|stall1.5", "cs|stall1.05", "sc|stall3.0")):
                if tier == "quick" and api in ("c.send(retry=-1)", "s.send(RETRY_ON_TIMEOUT)") and size not in (40, 2500):
                    continue
                out.append((api, size, 1500, ("drop",), None, False, o, 1, 4))
    # every counter (datagram, message, fragment) a few numbers below the 16-bit wrap
    for api in ("c.send_guaranteed", "s.send_guaranteed"):
        for mtu, size in ((1500, 40), (1500, 2500), (1500, 1434)):
            for b in (None, ("s2c", 0, 13), ("c2s", 3, 160), ("both", 1, 77)):
                for other in ((False, "burst") if tier == "quick" else (False, True, "burst", "frag")):
                    if other == "frag" and size < 1435:
                        continue
                    out.append((api, size, mtu, fates if other is False else ("drop",), b, other, "cs|wrap", 1, 8))
    # ... with both ends sending every tick, the guaranteed message leaving in the k-th datagram from the preset (65531 + k):
    # a loss right before the datagram number wraps is acknowledged (or not) by headers whose ack is already past the wrap
    for api in ("c.send_guaranteed", "s.send_guaranteed"):
        # (frames of 1/50 s > send_interval: one datagram per tick and direction, the 0.1 s resend is 5 ticks away)
        for k in ((0, 1, 2, 3, 4) if tier == "quick" else (0, 1, 2, 3, 4, 5, 6, 8)):
            for size in ((40,) if tier == "quick" else (40, 2500)):
                out.append((api, size, 1500, ("drop",), None, ("bidi", k), "cs|wrap|dt50", 1, 12))
                if tier == "thorough":
                    out.append((api, size, 1500, ("drop", "delay8"), None, ("bidi", k), "cs|wrap", 1, 16))
    # selective loss by size (the large fragment of a message is lost for longer than the receiver-side expiry of
    # 1 + n/2 s, the small one arrives at once), then healed
    for api in ("c.send_guaranteed", "s.send_guaranteed"):
        for size, thr in ((1500, 600), (2400, 600), (2100, 200)):
            for ticks in ((70, 141, 200) if tier == "quick" else (30, 70, 100, 141, 170, 200, 260)):
                for other in (("stream", "stream+frag") if tier == "quick" else (False, True, "stream", "stream+frag")):
                    out.append((api, size, 1500, (), ("hole", 0, ticks, thr), other, "cs", 1, 4))
    if tier == "thorough":
        out.append(("c.send_guaranteed", 256 * 1024, 1500, (), None, False, "cs", 1, 4))
        out.append(("s.send_guaranteed", 256 * 1024, 1500, (), ("s2c", 40, 30), False, "cs", 1, 4))
    return out


def run(tier, seed):
    rep = core.Report()
    laps = lap.start(tier)
    plist = params_list(tier)
    if seed:
        k = seed % len(plist)
        plist = plist[k:] + plist[:k]
    sizes_part = [p for p in plist if p[3] == ("drop",)]
    loss_part = [p for p in plist if p[3] != ("drop",)]
    st1 = explore.explore_all("checks.c05", "scenario", sizes_part, 1, time_budget=(1000 if tier == "quick" else 3000))
    st2 = explore.explore_all("checks.c05", "scenario", loss_part, 2, time_budget=(1000 if tier == "quick" else 3000))
    tp = thread_params(tier)
    st_t = explore.explore_all("checks.c05", "thread_scenario", tp, 1 if tier == "quick" else 2, time_budget=(900 if tier == "quick" else 2400))
    thr_cov = {"configurations": len(tp), "schedules": st_t.executions, "by_preemptions": st_t.by_cost, "scheduling_points": st_t.steps, "distinct_outcomes": len(st_t.outcomes),
               "capped": st_t.capped, "granularity": "line"}
    b3 = None
    sts = [st1, st2, st_t]
    if tier == "thorough":
        sub = [p for p in loss_part if p[4] is None and p[5] is False and p[6] == "cs" and p[7] == 1][:6]
        st3 = explore.explore_all("checks.c05", "scenario", sub, 3, time_budget=420)
        sts.append(st3)
        b3 = {"configurations": len(sub), "executions": st3.executions, "by_deviations": st3.by_cost, "capped_by_time_budget": st3.capped}
    seen = set()
    for st in sts:
        for v in st.violations:
            api, size, mtu = v["params"][0], v["params"][1], v["params"][2]
            sig = v["sig"]
            rep.add_violation(core.Violation(v["oracle"], sig, {"params": v["params"], "choices": v["choices"], "labels": v["labels"]},
                                             "%s | params=%r deviations=%r" % (v["message"], v["params"], v["labels"])))
    lap_v, lap_cov = lap.collect(laps, PROPERTY)
    for v in lap_v:
        rep.add_violation(v)
    execs = st1.executions + st2.executions
    rep.coverage = {
        "long_session_part": lap_cov,
        "states": st1.points + st2.points, "transitions": st1.steps + st2.steps,
        "traces_validated_against_impl": execs, "executions": execs,
        "sizes_part": {"configurations": len(sizes_part), "executions": st1.executions, "by_deviations": st1.by_cost, "bound": 1, "capped": st1.capped},
        "loss_part": {"configurations": len(loss_part), "executions": st2.executions, "by_deviations": st2.by_cost, "bound": 2, "capped": st2.capped},
        "distinct_outcomes": len(st1.outcomes | st2.outcomes),
        "evaluations": execs, "distinct_nontrivial": len(st1.outcomes | st2.outcomes),
        "rule": "states = execution-tree nodes; transitions = virtual ticks run on the real stack; outcomes = (delivered, both connected, ticks after healing)",
        "exhaustive": not (st1.capped or st2.capped),
        "samples": (st1.samples[:2] + st2.samples[:3]),
        "horizon_s": HORIZON_S, "bound3_part": b3, "threads_part": thr_cov,
    }
    rep.assumptions = ["bounded liveness: delivery within %.0f virtual seconds (+ fragment count x 2 ticks) after the network healed" % HORIZON_S,
                       "<=1 loss per execution in the size sweep, <=2 deviations in the loss part; blackouts are parameters",
                       "tick 1/64 s on both ends"]
    return rep


def replay(witness):
    if "lap" in witness:
        return lap.replay(witness, PROPERTY)
    if len(witness["params"]) == 5:
        ch = explore.replay_choices(thread_scenario, _tup(witness["params"]), witness["choices"])
        return [core.Violation(o, s, witness, m) for o, s, m in ch.found]
    ch = explore.replay_choices(scenario, _tup(witness["params"]), witness["choices"])
    return [core.Violation(o, s, witness, m) for o, s, m in ch.found]


def _tup(x):
    if isinstance(x, list):
        return tuple(_tup(i) for i in x)
    return x
