"""C16 - the HTTP router matches paths exactly as the documented grammar says.

Engine C: every pattern of <=4 segments over {a, ab, a.b, :p, :q} with an
optional final :r? / :r+ / :r* x every request path of <=4 (quick) / 5
(thorough) segments over {a, ab, b, axb, a.b, ''} with and without a trailing
slash, against a reference matcher on segment lists written from the
documented table.  Plus: every ordered pair of patterns (<=2 segments) in one
table and across two methods, through Router.dispatch (first match, method
separation, 404).
"""
import itertools

from mc import core

PROPERTY = "C16"
LEVEL = "exploration"

PSEGS = ["a", "ab", "a.b", ":p", ":q"]
FINALS = ["", ":r?", ":r+", ":r*"]
USEGS = ["a", "ab", "b", "axb", "a.b", ""]


# a second, shallower enumeration over a wider alphabet: literals that differ only in case, literals made of
# regular-expression metacharacters, non-ASCII, percent and digits - each with a path segment that a regex reading of
# the literal (or a case-insensitive one) would accept
W_PSEGS = ["a", "A", "a+", "a*b", "a|b", "(a)", "a$", "^a", "[ab]", "a?", "a{2}", "\\d", "\u00e9", "a-b", "%41", "1", ":p", ":user-id", ":f.n", ":9"]
W_FINALS = ["", ":r?", ":r+", ":r*", ":x-y?", ":x.y+", ":x-y*", ":0*"]     # parameter names are whatever follows the colon
W_USEGS = ["a", "A", "aa", "ab", "b", "a+", "a*b", "a|b", "(a)", "a$", "^a", "[ab]", "a?", "a{2}", "\\d", "7", "\u00e9", "e", "a-b", "%41", "1", ""]


def patterns(maxlen, psegs=None, finals=None):
    psegs = PSEGS if psegs is None else psegs
    out = []
    for fin in (FINALS if finals is None else finals):
        for n in range(0, (maxlen if not fin else maxlen - 1) + 1):
            for segs in itertools.product(psegs, repeat=n):
                s = list(segs) + ([fin] if fin else [])
                out.append("/" + "/".join(s))
    return out


def paths(maxlen, usegs=None):
    usegs = USEGS if usegs is None else usegs
    out = []
    for n in range(0, maxlen + 1):
        for segs in itertools.product(usegs, repeat=n):
            p = "/" + "/".join(segs)
            out.append(p)
            if n:
                out.append(p + "/")
    # de-duplicate, keep order
    seen = set()
    res = []
    for p in out:
        if p not in seen:
            seen.add(p)
            res.append(p)
    return res


def ref_match(pattern, path):
    """returns ('unspecified', None) | ('no', None) | ('yes', bindings list[(name, value or None)])"""
    psegs = [s for s in pattern.split("/") if s]
    assert path.startswith("/")
    segs = path[1:].split("/")
    if segs and segs[-1] == "":
        segs = segs[:-1]  # one optional trailing slash ("/" itself gives [])
    if any(s == "" for s in segs):
        return "unspecified", None
    binds = []
    i = 0
    for k, ps in enumerate(psegs):
        if ps.startswith(":") and ps[-1] in "?+*":
            rest = segs[i:]
            name = ps[1:-1]
            if ps[-1] == "?":
                if len(rest) > 1:
                    return "no", None
                binds.append((name, rest[0] if rest else None))
            elif ps[-1] == "+":
                if len(rest) < 1:
                    return "no", None
                binds.append((name, "/".join(rest)))
            else:
                binds.append((name, "/".join(rest) if rest else None))
            return "yes", binds
        if i >= len(segs):
            return "no", None
        if ps.startswith(":"):
            binds.append((ps[1:], segs[i]))
        elif ps != segs[i]:
            return "no", None
        i += 1
    if i != len(segs):
        return "no", None
    return "yes", binds


def norm_bind(v):
    if v is None or v == "":
        return None
    if v.endswith("/"):
        v = v[:-1]
    return v or None


def classify_pattern(pattern):
    kinds = []
    for s in pattern.split("/"):
        if not s:
            continue
        if s.startswith(":"):
            kinds.append(":x" + (s[-1] if s[-1] in "?+*" else ""))
        elif "." in s:
            kinds.append("lit.")
        else:
            kinds.append("lit")
    return "/".join(kinds) or "/"


def features(pattern):
    f = set()
    for s in pattern.split("/"):
        if s.startswith(":"):
            f.add(":name" + (s[-1] if s[-1] in "?+*" else ""))
        elif "." in s:
            f.add("literal with '.'")
        elif any(c in "+*|()$^[]?{}\\" for c in s):
            f.add("literal with regex metacharacters")
        elif s and not s.isascii():
            f.add("non-ASCII literal")
        elif s:
            f.add("literal")
    return ", ".join(sorted(f)) or "/"


def cause(pattern, path):
    """why does the documented rule reject? used to keep signatures specific but not per-shape"""
    # would it match if '.' in a literal were a wildcard character?
    import re as _re
    psegs = [s for s in pattern.split("/") if s]
    segs = [s for s in path.split("/") if s]
    lit_dot = any((not ps.startswith(":")) and "." in ps and i < len(segs) and segs[i] != ps and _re.fullmatch(ps, segs[i])
                  for i, ps in enumerate(psegs))
    plus = bool(psegs) and psegs[-1].startswith(":") and psegs[-1].endswith("+")
    out = []
    if lit_dot:
        out.append("literal segment containing '.' matched a different segment")
    if plus and len(segs) <= len(psegs) - 1 + 0 and not lit_dot:
        out.append(":name+ matched without a further segment")
    elif plus and not lit_dot:
        out.append(":name+ glued to the preceding literal")
    return "; ".join(out) or "pattern features: " + features(pattern)


def work_init(tier):
    global _ROUTER_CLS, _ROUTE, _PATHS
    core.import_repo()
    from mpgameserver.http_server import Router, Route
    _ROUTER_CLS, _ROUTE = Router, Route
    _PATHS = paths(4 if tier == "quick" else 5)
    global _WPATHS
    _WPATHS = paths(2 if tier == "quick" else 3, W_USEGS)


def work(pats):
    counts = core.Counter()
    viols = {}
    nontrivial = 0
    wide = False
    if pats and pats[0] == "wide":
        wide = True
        pats = pats[1:]
    the_paths = _WPATHS if wide else _PATHS
    for pattern in pats:
        router = _ROUTER_CLS()
        try:
            router.registerRoutes([_ROUTE("r", "GET", pattern, None)])
        except Exception as e:
            viols.setdefault(("register-raises", "registerRoutes raises %s for %s" % (type(e).__name__, classify_pattern(pattern))),
                             [0, {"pattern": pattern, "path": None}, repr(e)])[0] += 1
            continue
        names = [s[1:].rstrip("?+*") for s in pattern.split("/") if s.startswith(":")]
        dup_names = len(set(names)) != len(names)
        for path in the_paths:
            verdict, binds = ref_match(pattern, path)
            try:
                res = router.getRoute("GET", path)
            except Exception as e:
                viols.setdefault(("getRoute-raises", "getRoute raises %s" % type(e).__name__), [0, {"pattern": pattern, "path": path}, repr(e)])[0] += 1
                continue
            got = res is not None
            counts.inc("%s/%s" % (verdict, "match" if got else "nomatch"))
            bad = None
            if verdict == "yes" and not got:
                bad = ("under-match", "documented match refused [pattern features: %s]" % features(pattern),
                       "pattern %r must match %r" % (pattern, path))
            elif verdict == "no" and got:
                bad = ("over-match", "path matched against the documented rule [%s]" % cause(pattern, path),
                       "pattern %r must NOT match %r (bound %r)" % (pattern, path, res[1]))
            elif got:
                if verdict == "yes":
                    nontrivial += 1
                # bindings: a plain :name never binds an empty segment
                for s in pattern.split("/"):
                    if s.startswith(":") and s[-1] not in "?+*" and not res[1].get(s[1:]):
                        bad = ("empty-binding", "plain :name bound to an empty segment", "pattern %r path %r bound %r" % (pattern, path, res[1]))
                if verdict == "yes" and not dup_names and bad is None:
                    want = {k: norm_bind(v) for k, v in binds}
                    have = {k: norm_bind(v) for k, v in res[1].items()}
                    if want != have:
                        bad = ("bindings", "wrong bound values [pattern features: %s]" % features(pattern),
                               "pattern %r path %r bound %r, expected %r" % (pattern, path, res[1], want))
            if bad:
                viols.setdefault((bad[0], bad[1]), [0, {"pattern": pattern, "path": path}, bad[2]])[0] += 1
    return len(pats) * len(the_paths), dict(counts), viols, nontrivial


class _Req(object):
    def __init__(self, n, method, path):
        self.client_address = ("10.%d.%d.%d" % ((n >> 16) & 255, (n >> 8) & 255, n & 255), 1000)
        self.method = method
        self.path = path
        self.headers = {}
        self.matches = {}


def _resource(methods, p1, p2, hit, Response):
    import types
    from mpgameserver import http_server as hs
    deco = {"GET": hs.get, "POST": hs.post}

    def zz_first(self, req):
        hit.append((1, dict(req.matches)))
        return Response(b"1", 201)

    def aa_second(self, req):
        hit.append((2, dict(req.matches)))
        return Response(b"2", 202)

    def body(ns):
        ns["zz_first"] = deco[methods[0]](p1)(zz_first)
        ns["Mid"] = 7
        ns["aa_second"] = deco[methods[1]](p2)(aa_second)
    return types.new_class("TableResource", (hs.Resource,), {}, body)()


def table_work_init(tier):
    work_init(tier)
    global _TIER
    _TIER = tier


def table_work(p1s):
    cnt = {}
    v = table_check(_TIER, cnt, p1s)
    return cnt.get("dispatch_requests", 0), v


def table_check(tier, rep_counts, p1s):
    """first match / method separation / 404 through Router.dispatch"""
    from mpgameserver.http_server import Router, Route, Response
    from mc import seams
    vt = seams.VirtualTime(5000.0)
    patches = seams.Patches()
    patches.set(seams.m_http, "time", vt)
    viols = {}
    n = 0
    try:
        pats = patterns(1 if tier == "quick" else 2) + (["/a/:p", "/:p/a", "/a.b/:r+", "/a/:r*"] if tier == "quick" else [])
        pths = paths(3)
        for p1, p2 in itertools.product(p1s, pats):
            for methods, calls in ((("GET", "GET"), 1), (("GET", "POST"), 1), (("GET", "GET"), 2), (("GET", "GET"), "resource"), (("GET", "GET"), "ws"), (("GET", "GET"), "ws-first")):
                router = Router()
                hit = []
                r1 = Route("r1", methods[0], p1, lambda req: (hit.append((1, dict(req.matches))), Response(b"1", 201))[1])
                r2 = Route("r2", methods[1], p2, lambda req: (hit.append((2, dict(req.matches))), Response(b"2", 202))[1])
                r2.options = {}
                if calls in ("ws", "ws-first"):
                    # a websocket route next to a plain route of the same method: registration order decides as for any
                    # two routes (a GET without upgrade headers that is given to the websocket route is answered 400)
                    if calls == "ws":
                        r2 = Route("r2", "GET", p2, r2.callback, websocket=True)
                    else:
                        r1 = Route("r1", "GET", p1, r1.callback, websocket=True)
                    router.registerRoutes([r1, r2])
                elif calls == "resource":
                    # the documented way: a Resource subclass with decorated methods, declared in this order under
                    # names that do NOT sort in declaration order; its routes() are registered
                    router.registerRoutes(_resource(methods, p1, p2, hit, Response).routes())
                elif calls == 1:
                    router.registerRoutes([r1, r2])
                else:
                    # two resources registered one after the other: the first registered route still wins
                    router.registerRoutes([r1])
                    router.registerRoutes([r2])
                for path in pths:
                    v1, b1 = ref_match(p1, path)
                    v2, b2 = ref_match(p2, path)
                    if "unspecified" in (v1, v2):
                        continue
                    for method in ("GET", "POST"):
                        n += 1
                        vt.now += 0.001
                        del hit[:]
                        req = _Req(n, method, path)
                        resp = router.dispatch(req)
                        expect = None
                        if methods[0] == method and v1 == "yes":
                            expect = 201
                        elif methods[1] == method and v2 == "yes":
                            expect = 202
                        else:
                            expect = 404
                        if calls == "ws" and expect == 202 or calls == "ws-first" and expect == 201:
                            expect = 400    # chosen route is the websocket endpoint, the request carries no upgrade header
                        if resp.status_code != expect:
                            key = ("dispatch", "dispatch status %s, documented %s (%s%s)" % (resp.status_code, expect, "first-match/method" if expect != 404 else "must be 404", ", routes registered by two registerRoutes calls" if calls == 2 else (", routes declared in a Resource subclass" if calls == "resource" else (", a websocket route and a plain route" if calls in ("ws", "ws-first") else ""))))
                            viols.setdefault(key, [0, {"p1": p1, "p2": p2, "methods": methods, "method": method, "path": path},
                                                   "table [%s %r, %s %r] request %s %r -> %s, expected %s" % (methods[0], p1, methods[1], p2, method, path, resp.status_code, expect)])[0] += 1
                        elif expect == 400:
                            if hit:
                                key = ("dispatch", "a handler runs although the request was given to the websocket route without an upgrade")
                                viols.setdefault(key, [0, {"p1": p1, "p2": p2, "methods": methods, "method": method, "path": path}, "hit %r" % (hit,)])[0] += 1
                        elif expect != 404:
                            # the handler of the chosen route sees ITS parameters bound, under its own names
                            binds = b1 if expect == 201 else b2
                            names = [k for k, _ in binds]
                            want = {k: norm_bind(v) for k, v in binds}
                            have = {k: norm_bind(v) for k, v in hit[0][1].items()} if len(hit) == 1 else None
                            if len(set(names)) == len(names) and (have is None or hit[0][0] != expect - 200 or want != have):
                                key = ("dispatch-bindings", "the chosen route's handler does not see its parameters bound under their own names (two routes in one table)")
                                viols.setdefault(key, [0, {"p1": p1, "p2": p2, "methods": methods, "method": method, "path": path},
                                                       "table [%s %r, %s %r] request %s %r -> handler saw %r, expected %r" % (methods[0], p1, methods[1], p2, method, path, hit, want)])[0] += 1
    finally:
        patches.undo()
    rep_counts["dispatch_requests"] = n
    return viols


def _samples(pats):
    from mpgameserver.http_server import Router, Route
    out = []
    for pi, qi in ((17, 33), (400, 250), (1100, 1500), (900, 77)):
        pattern, path = pats[pi % len(pats)], _PATHS[qi % len(_PATHS)]
        r = Router()
        r.registerRoutes([Route("r", "GET", pattern, None)])
        res = r.getRoute("GET", path)
        out.append({"pattern": pattern, "path": path, "documented": ref_match(pattern, path)[0], "router": None if res is None else res[1]})
    return out


def run(tier, seed):
    rep = core.Report()
    pats = patterns(4)
    if seed:
        k = seed % len(pats)
        pats = pats[k:] + pats[:k]
    chunks = [pats[i::64] for i in range(64)]
    wpats = patterns(2 if tier == "quick" else 3, W_PSEGS, W_FINALS)
    chunks += [["wide"] + wpats[i::32] for i in range(32)]
    results = core.pmap("checks.c16", "work", chunks, initargs=(tier,))
    total = 0
    classes = core.Counter()
    acc = {}
    nontrivial = 0
    for n, counts, viols, nt in results:
        total += n
        nontrivial += nt
        for k, v in counts.items():
            classes.inc(k, v)
        for key, (cnt, wit, msg) in viols.items():
            if key not in acc:
                acc[key] = [0, wit, msg]
            acc[key][0] += cnt
    extra = {"dispatch_requests": 0}
    work_init(tier)
    tp = patterns(1 if tier == "quick" else 2) + (["/a/:p", "/:p/a", "/a.b/:r+", "/a/:r*"] if tier == "quick" else [])
    for n, viols in core.pmap("checks.c16", "table_work", [tp[i::32] for i in range(32) if tp[i::32]], initargs=(tier,)):
        extra["dispatch_requests"] += n
        for key, (cnt, wit, msg) in viols.items():
            if key not in acc:
                acc[key] = [0, wit, msg]
            acc[key][0] += cnt
    for (oracle, sig), (cnt, wit, msg) in sorted(acc.items()):
        rep.add_violation(core.Violation(oracle, sig, wit, "%s [%d cases]" % (msg, cnt)))
    rep.coverage = {
        "evaluations": total + extra.get("dispatch_requests", 0),
        "distinct_nontrivial": nontrivial,
        "rule": "all %d patterns (<=4 segments over %r, optional final %r) x all %d paths (<=%d segments over %r, +/- trailing slash); "
                "non-trivial = (pattern, path) pairs where the documented rule says MATCH and bindings were compared; "
                "plus %d patterns (<=%d segments over the wide alphabet %r) x %d paths over %r; "
                "paths containing an empty segment are UNSPECIFIED for the verdict (only the no-empty-:name clause is checked)" % (
                    len(pats), PSEGS, FINALS[1:], len(_PATHS), 4 if tier == "quick" else 5, USEGS, len(wpats), 2 if tier == "quick" else 3, W_PSEGS, len(_WPATHS), W_USEGS),
        "verdict_classes": dict(classes),
        "dispatch_requests": extra.get("dispatch_requests", 0),
        "exhaustive": True,
        "samples": core.safe_samples(lambda: _samples(pats)),
    }
    rep.assumptions = ["reference matcher written from the documented table in Resource/Router docstrings",
                       "rate limiter kept out of the way: one client address per request and a frozen clock"]
    return rep


def replay(witness):
    work_init("quick")
    if "pattern" in witness:
        global _PATHS
        _PATHS = [witness["path"]]
        n, counts, viols, nt = work([witness["pattern"]])
    else:
        return []
    return [core.Violation(k[0], k[1], witness, v[2]) for k, v in viols.items()]
