"""C10 - server handler lifecycle: connect once, then that client's messages,
then disconnect once; one thread; events keep flowing; distinct tokens.

Engine A on the full stack with two clients (plus re-connects from the same
address) and a recording handler.  Default run: both connect, exchange
messages, client 0 disconnects, the others are probed, the server shuts down.
Deviations (cost 1, insertable at the listed ticks, <= 2 per execution): a
client goes silent / disconnects / reconnects from the same address; a
duplicated, stale or garbage datagram; an AUTHENTICATED but malicious client
sending multi-message datagrams with inner types from {APP, CHALLENGE_RESP,
DISCONNECT, CLIENT_HELLO, KEEP_ALIVE}; the handler raising in the next
connect / handle_message / disconnect / update / starting / shutdown; the
handler calling client.disconnect() or client.send() from inside an event;
ctxt.shutdown() now; the token generator returning the same random bytes
again (collisions are enumerated, not waited for); a client that sends its
CORRECT challenge response more than once under fresh datagram / message
numbers - several times in its handshake datagram (hand-sealed at emission, or
queued by the application's connect callback through the library), again in
its own datagram or inside a bundle on the established connection.
"""
import os
import struct
import threading

from mc import core, explore, seams
from mc.world import World, Monitor

core.import_repo()
from cryptography.hazmat.primitives.ciphers.aead import AESGCM  # noqa
from mpgameserver.connection import ConnectionStatus, PacketType, RetryMode  # noqa
from mpgameserver.connection import HandshakeClientChallengeResponseMessage  # noqa

PROPERTY = "C10"
LEVEL = "model_checking"

T = PacketType


class TokenSource(object):
    """urandom for context.get_token: unique by default, 'collide' repeats the previous answer once"""

    def __init__(self):
        self.n = 0
        self.last = None
        self.collide = 0
        self.calls = 0

    def __call__(self, k):
        self.calls += 1
        if self.collide and self.last is not None:
            self.collide -= 1
            return self.last
        self.n += 1
        self.last = struct.pack(">L", 0x10000000 + self.n * 7919)[:k].ljust(k, b"\x00")
        return self.last


class LifecycleMonitor(Monitor):
    def __init__(self):
        Monitor.__init__(self)
        self.state = {}      # serial -> new/connected/disconnected
        self.owner = {}      # serial -> (client index, session)
        self.threads = set()
        self.msgs = {}       # serial -> list of payloads
        self.delivered_probes = set()
        self.tag_delivered = set()
        self.silent_since = {}   # (client index, session) -> tick at which that client stopped sending for good
        self.replays = []        # (client index, datagram, since tick): delivered again every 8 ticks
        self.cr_replace = []     # armed: inner types that replace client 1's next challenge response
        self.cr_replaced = False
        self.cr_keep = False     # the replacement contains the RIGHT challenge response: the peer completes the handshake and stays
        self.objs = {}

    def on_send(self, w, d):
        if self.cr_replace and not self.cr_replaced and d.src == "c1" and len(d.data) >= 20 and d.data[12] == T.CHALLENGE_RESP.value:
            conn = w.clients[1].conn
            if conn is None or not conn.session_key_bytes:
                return
            self.cr_replaced = True
            seq = struct.unpack(">H", d.data[8:10])[0]
            msgs = []
            for j, t in enumerate(self.cr_replace[0]):
                if CRR in self.cr_replace[0]:
                    # a retrying client: message numbers continue the client's own count (its hello was message 1, the
                    # challenge response that is replaced here carries conn.seq_message), the peer completes the handshake
                    self.cr_keep = True
                    mseq = (int(conn.seq_message) - 1 + j) % 65535 + 1
                    if t is CRR:
                        # the client's own, correct challenge response (library constructor)
                        msgs.append((mseq, T.CHALLENGE_RESP.value, challenge_body(conn)))
                    else:
                        msgs.append((mseq, t.value, b"tag:1:%d:99:evil" % w.clients[1].session if t == T.APP else b""))
                    continue
                body = b"tag:1:%d:99:evil" % w.clients[1].session if t == T.APP else (b"\x00\x0f" if t in (T.CLIENT_HELLO, T.CHALLENGE_RESP) else b"")
                msgs.append((j + 1, t.value, body))
            if self.cr_keep:
                conn.seq_message = type(conn.seq_message)(msgs[-1][0])   # the retrying client keeps its own counters consistent
            d.data = sealed(conn.session_key_bytes, True, int(w.vt.now), seq, 0, T.CHALLENGE_RESP.value, msgs)

    def state_tuple(self):
        return tuple(sorted(self.state.items()))

    def on_handler_event(self, w, name, client, args):
        self.threads.add(threading.get_ident())
        if len(self.threads) > 1:
            self.flag("one-thread", "handler events run on more than one thread", "%r" % self.threads)
        if name in ("starting", "shutdown", "update"):
            if name == "shutdown":
                left = [s for s, st in self.state.items() if st == "connected"]
                if left:
                    self.flag("disconnect-once", "server shut down while a connected client never got its disconnect event", "clients %r" % left)
            return
        sid = w.serial(client)
        self.objs[sid] = client
        st = self.state.get(sid, "new")
        if name == "connect":
            if st != "new":
                self.flag("connect-once", "connect event for a client that already %s" % ("is connected" if st == "connected" else "was disconnected"), "client #%d" % sid)
            self.state[sid] = "connected"
            # who is it?  match by session key against every client session the harness created
            who = None
            for ce in w.clients:
                for sess, ucl, conn in getattr(ce, "sessions", []):
                    # conn was captured at connect(): forceDisconnect() later drops the UdpClient's reference, not the fact
                    # that this session completed the handshake
                    if conn is not None and conn.session_key_bytes is not None and conn.session_key_bytes == client.session_key_bytes:
                        who = (ce.index, sess)
            self.owner[sid] = who
            if who is None:
                self.flag("connect-after-handshake", "connect event for a peer that did not complete the handshake (no client holds its key)", "client #%d addr %s" % (sid, client.addr))
            if client.addr not in w.ctxt.connections or w.ctxt.connections[client.addr] is not client:
                self.flag("connect-after-handshake", "connect event for a client that is not in the connected pool", "client #%d" % sid)
            # tokens of simultaneously connected clients are pairwise distinct
            toks = [(s, self.objs[s].token) for s, v in self.state.items() if v == "connected"]
            if len(set(t for _, t in toks)) != len(toks):
                self.flag("distinct-tokens", "two simultaneously connected clients carry the same token", "%r" % toks)
        elif name == "handle_message":
            if st != "connected":
                self.flag("message-only-connected", "handle_message for a client that %s" % ("never connected" if st == "new" else "was already disconnected"), "client #%d" % sid)
        elif name == "disconnect":
            if st != "connected":
                self.flag("disconnect-once", "disconnect event for a client that %s" % ("never connected" if st == "new" else "was already disconnected"), "client #%d" % sid)
            self.state[sid] = "disconnected"

    def on_app_message(self, w, end, seq, payload):
        if end[0] != "s":
            return
        sid = end[1]
        self.msgs.setdefault(sid, []).append(payload)
        if payload.startswith(b"tag:"):
            try:
                _, idx, sess, n = payload.split(b":")[:4]
                who = (int(idx), int(sess))
            except Exception:
                return
            self.tag_delivered.add((int(idx), int(sess), int(n)))
            if self.owner.get(sid) is not None and self.owner[sid] != who:
                self.flag("own-messages", "a client's message was handed to the handler with another client object", "payload of %r delivered as client #%d = %r" % (who, sid, self.owner[sid]))
            if b"probe" in payload:
                self.delivered_probes.add(who)

    def state(self):
        return ()


def sealed(key, to_server, ctime, seq, ack, typ, msgs, ack_bits=0):
    if len(msgs) == 1:
        body = struct.pack(">H", msgs[0][0]) + msgs[0][2]
    else:
        body = b"".join(struct.pack(">HHB", len(p), s, t) + p for s, t, p in msgs)
    hdr = struct.pack(">4sLHHBHBL", b"FSOS" if to_server else b"FSOC", ctime, seq, ack, typ, len(body), len(msgs), ack_bits)
    return hdr + AESGCM(key).encrypt(hdr[:12], body, hdr)


MALICIOUS = [
    [T.DISCONNECT, T.APP], [T.APP, T.DISCONNECT, T.APP], [T.CLIENT_HELLO, T.APP], [T.CHALLENGE_RESP, T.APP], [T.CHALLENGE_RESP, T.CHALLENGE_RESP],
    [T.DISCONNECT, T.DISCONNECT], [T.KEEP_ALIVE, T.APP, T.KEEP_ALIVE], [T.CLIENT_HELLO, T.CHALLENGE_RESP, T.APP], [T.APP, T.CLIENT_HELLO],
    [T.DISCONNECT, T.CHALLENGE_RESP], [T.SERVER_HELLO, T.APP], [T.APP_FRAGMENT, T.DISCONNECT],
]
EVENTS = ["connect", "handle_message", "disconnect", "update", "starting", "shutdown"]


class _Retry(object):
    """inner type 'this client's challenge response AGAIN': type CHALLENGE_RESP, the RIGHT token, fresh numbers"""
    value = "3r"


CRR = _Retry()
# a client that retries its challenge: the repeated response gets past the duplicate filters (fresh datagram and message numbers)
MALICIOUS_RETRY = [[CRR, CRR], [T.APP, CRR], [T.DISCONNECT, CRR]]
HALF_OPEN_RETRY = [[CRR, CRR], [CRR, CRR, T.APP], [CRR, T.APP, CRR]]
RETRY_AT_CONNECT = [(2, False), (3, False), (2, True)]     # (copies of the challenge response in the first datagram, plus a message)


def challenge_body(conn):
    reply = HandshakeClientChallengeResponseMessage()
    reply.token = conn.token
    return reply.dumpb()


def resend_challenge(w, k, with_msg=False):
    """the application-side connection queues its challenge response once more (library path: own counters, own sealing)"""
    conn = w.clients[k].client.conn
    conn._send_type(T.CHALLENGE_RESP, challenge_body(conn), RetryMode.NONE, None)
    if with_msg:
        client_send(w, k, b"with-retry")


def connect_client(w, i):
    ce = w.client_connect(i)
    ce.session = getattr(ce, "session", 0) + 1
    ce.sessions = getattr(ce, "sessions", []) + [(ce.session, ce.client, ce.client.conn)]
    ce.nsent = 0
    return ce


def client_send(w, i, extra=b""):
    ce = w.clients[i]
    if ce.client is None or ce.client.conn is None:
        return
    ce.nsent += 1
    ce.client.send(b"tag:%d:%d:%d:%s" % (i, ce.session, ce.nsent, extra), retry=0)


def menu(w, mon, ts, tick):
    """deviations offered at this tick: (label, action)"""
    out = []
    for k in (0, 1):
        ce = w.clients[k]
        if ce.client is not None and ce.client.conn is not None:
            out.append(("client %d goes silent" % k, lambda ce=ce, k=k: (mon.silent_since.__setitem__((k, ce.session), w.tickno), ce.client.forceDisconnect())))
            mine_k = [d for d in w.all_sent if d.src == "c%d" % k and len(d.data) >= 20 and d.data[12] in (4, 6)]
            if mine_k:
                def silent_replayed(ce=ce, k=k, d=mine_k[-1]):
                    # the client dies, but the network (or an attacker) keeps delivering one of its old datagrams
                    mon.silent_since[(k, ce.session)] = w.tickno
                    ce.client.forceDisconnect()
                    mon.replays.append((k, d.data, w.tickno))
                out.append(("client %d goes silent and its last datagram is delivered again every 8 ticks from now on" % k, silent_replayed))
            out.append(("client %d disconnects" % k, lambda ce=ce: ce.client.disconnect()))
            out.append(("client %d sends" % k, lambda k=k: client_send(w, k)))
    out.append(("client 0 reconnects from the same address", lambda: connect_client(w, 0)))
    for k in (0, 1):
        mine = [d for d in w.all_sent if d.src == "c%d" % k]
        if mine:
            out.append(("duplicate of client %d's last datagram" % k, lambda d=mine[-1], k=k: w.inject("s", d.data, client_addr=w.clients[k].addr)))
            out.append(("stale copy of client %d's first datagram" % k, lambda d=mine[0], k=k: w.inject("s", d.data, client_addr=w.clients[k].addr)))
    a1 = w.clients[1].addr
    out.append(("garbage with magic from client 1's address", lambda: w.inject("s", b"FSOS" + bytes(range(40)), client_addr=a1)))
    out.append(("truncated header from client 1's address", lambda: w.inject("s", b"FSOS\x00\x00", client_addr=a1)))
    out.append(("hello-typed junk from a new address", lambda: w.inject("s", struct.pack(">4sLHHBHBL", b"FSOS", 0, 1, 0, 1, 4, 1, 0) + b"junk" + b"\x00" * 4, client_addr=("10.7.7.7", 7))))
    c1 = w.clients[1].conn
    sc1 = w.ctxt.connections.get(a1)
    if c1 is not None and c1.session_key_bytes and sc1 is not None:
        for types in MALICIOUS:
            def act(types=types):
                conn = w.clients[1].conn
                seq = int(conn.seq_sending + 1)
                conn.seq_sending = conn.seq_sending + 1   # the malicious client keeps its own counters consistent
                mseq = int(conn.seq_message)
                msgs = []
                for j, t in enumerate(types):
                    mseq = mseq % 65535 + 1
                    body = b"tag:1:%d:99:evil" % w.clients[1].session if t == T.APP else (b"\x00\x0f" if t in (T.CLIENT_HELLO, T.CHALLENGE_RESP, T.SERVER_HELLO) else b"")
                    msgs.append((mseq, t.value, body))
                conn.seq_message = type(conn.seq_message)(mseq)
                w.inject("s", sealed(conn.session_key_bytes, True, int(w.vt.now), seq, 0, types[0].value, msgs), client_addr=a1)
            out.append(("authenticated client 1 sends inner types %s" % "/".join(str(t.value) for t in types), act))
    # a peer that holds the session key (its hello was answered) but never proves it: its challenge response is replaced,
    # at the moment it is emitted, by a sealed bundle typed CHALLENGE_RESP that carries other messages
    if tick <= 3 and not mon.cr_replace and w.clients[1].addr not in w.ctxt.connections:
        for types in ([T.APP, T.APP], [T.KEEP_ALIVE, T.APP], [T.DISCONNECT, T.APP], [T.APP, T.CLIENT_HELLO]):
            out.append(("half-open client 1 sends inner types %s under a CHALLENGE_RESP header instead of its challenge response" % "/".join(str(t.value) for t in types),
                        lambda types=types: mon.cr_replace.append(types)))
    for ev in EVENTS:
        out.append(("handler raises in the next %s" % ev, lambda ev=ev: w.handler.raise_in.add(ev)))
    for ev in ("handle_message", "update"):
        out.append(("handler raises in every %s from now on" % ev, lambda ev=ev: w.handler.raise_always.add(ev)))
    for ev in ("connect", "handle_message", "disconnect"):
        def arm(ev=ev, what="disconnect"):
            def hook(w_, client, *a):
                w_.handler_hooks.pop(ev, None)
                client.disconnect()
            w.handler_hooks[ev] = hook
        out.append(("handler calls client.disconnect() inside the next %s" % ev, arm))

        def arm2(ev=ev):
            def hook(w_, client, *a):
                w_.handler_hooks.pop(ev, None)
                client.send(b"from-handler", retry=RetryMode.NONE)
            w.handler_hooks[ev] = hook
        out.append(("handler calls client.send() inside the next %s" % ev, arm2))
    for ev in ("connect", "handle_message", "disconnect"):
        for also_shutdown in (False, True):
            if also_shutdown and ev == "connect":
                continue

            def arm3(ev=ev, also_shutdown=also_shutdown):
                prev = w.handler_hooks.get(ev)

                def hook(w_, client, *a):
                    w_.handler_hooks.pop(ev, None)
                    if prev:
                        prev(w_, client, *a)
                    for c in list(w_.ctxt.connections.values()):
                        if c is not client:
                            c.disconnect()
                    if also_shutdown:
                        w_.ctxt.shutdown()
                w.handler_hooks[ev] = hook
            out.append(("handler disconnects the OTHER clients%s inside the next %s" % (" and calls ctxt.shutdown()" if also_shutdown else "", ev), arm3))
    out.append(("ctxt.shutdown() now", lambda: w.ctxt.shutdown()))
    out.append(("token generator repeats its last answer", lambda: setattr(ts, "collide", ts.collide + 1)))
    # ---- a client that sends its (correct) challenge response MORE THAN ONCE.  New kinds are appended: the indices of the
    # kinds above do not move.
    # (1) on the established connection, through the library's own send path: own datagram, fresh datagram / message numbers
    for k in (0, 1):
        ce = w.clients[k]
        if ce.client is not None and ce.client.conn is not None and ce.client.conn.status == ConnectionStatus.CONNECTED and ce.client.conn.session_key_bytes:
            out.append(("client %d sends its challenge response again (right token, fresh numbers)" % k, lambda k=k: resend_challenge(w, k)))
    ce1 = w.clients[1]
    if ce1.client is not None and ce1.client.conn is not None and ce1.client.conn.status == ConnectionStatus.CONNECTED and ce1.client.conn.session_key_bytes:
        out.append(("client 1 sends its challenge response again (right token, fresh numbers) and a message in the same frame", lambda: resend_challenge(w, 1, True)))
    # (2) the same inside multi-message datagrams of the authenticated client
    if c1 is not None and c1.session_key_bytes and sc1 is not None:
        for types in MALICIOUS_RETRY:
            def act_r(types=types):
                conn = w.clients[1].conn
                seq = int(conn.seq_sending + 1)
                conn.seq_sending = conn.seq_sending + 1
                mseq = int(conn.seq_message)
                msgs = []
                for t in types:
                    mseq = mseq % 65535 + 1
                    if t is CRR:
                        msgs.append((mseq, T.CHALLENGE_RESP.value, challenge_body(conn)))
                    else:
                        msgs.append((mseq, t.value, b"tag:1:%d:99:evil" % w.clients[1].session if t == T.APP else b""))
                conn.seq_message = type(conn.seq_message)(mseq)
                w.inject("s", sealed(conn.session_key_bytes, True, int(w.vt.now), seq, 0, msgs[0][1], msgs), client_addr=a1)
            out.append(("authenticated client 1 sends inner types %s (3r = its own challenge response again, right token)" % "/".join(str(t.value) for t in types), act_r))
    # (3) in the handshake datagram itself: the first datagram that client 1 seals carries its challenge response several times
    if tick <= 3 and not mon.cr_replace and w.clients[1].addr not in w.ctxt.connections:
        for types in HALF_OPEN_RETRY:
            out.append(("client 1's challenge datagram carries inner types %s (3r = its challenge response, right token, one message number each)" % "/".join(str(t.value) for t in types),
                        lambda types=types: mon.cr_replace.append(types)))
    # (4) the same through the library: the application's connect callback (it runs right after the challenge response was
    # queued) queues it again, so that the client's first sealed datagram carries it twice / three times
    if tick == 0 and w.on_connected is None and all(ce.client is None for ce in w.clients):
        for k in (0, 1):
            for copies, with_msg in RETRY_AT_CONNECT:
                def arm4(k=k, copies=copies, with_msg=with_msg):
                    def on_connected(w_, ce, ok):
                        if ok and ce.index == k and ce.client is not None and ce.client.conn is not None:
                            for _ in range(copies - 1):
                                resend_challenge(w_, k)
                            if with_msg:
                                client_send(w_, k, b"with-challenge")
                    w.on_connected = on_connected
                out.append(("client %d queues its challenge response %d times%s before its first sealed datagram leaves (every session)" % (
                    k, copies, " and a message" if with_msg else ""), arm4))
    return out


_ALOG = []


def _alog_dir():
    # one scratch directory per execution, removed again in _alog_cleanup (pool workers do not run atexit handlers)
    import tempfile
    if not _ALOG:
        _ALOG.append(tempfile.mkdtemp(prefix="c10alog"))
    return _ALOG[0]


def _alog_cleanup():
    # setupLogger adds a file handler to a process-wide logger on every call: close and remove them after each world
    import logging
    lg = logging.getLogger("mpgameserver.AccessLog")
    for h in list(lg.handlers):
        lg.removeHandler(h)
        try:
            h.close()
        except Exception:
            pass
    import shutil
    while _ALOG:
        shutil.rmtree(_ALOG.pop(), ignore_errors=True)


def scenario(params, ch):
    ticks, order = params
    swap = order.endswith("|swap")
    alog = order.endswith("|alog")
    order = order.split("|")[0]
    mon = LifecycleMonitor()
    ts = TokenSource()
    cfg = {"setConnectionTimeout": 0.5, "setTempConnectionTimeout": 0.25}
    if alog:
        # non-default logging configuration: access log enabled (the lifecycle does not depend on where events are logged)
        cfg["enableAccessLogs"] = os.path.join(_alog_dir(), "access.log")
    w = World(n_clients=2, autoconnect=False, order=order, chooser=ch, monitors=[mon], token_source=ts, swap_handler=swap,
              server_cfg=cfg)
    try:
        def deviate(tick):
            m = menu(w, mon, ts, tick)
            c = ch.choose("deviation@%d" % tick, [("none@%d" % tick, 0)] + [("%s @tick %d" % (l, tick), 1) for l, _ in m])
            if c:
                w.fault_free = False
                try:
                    m[c - 1][1]()
                except Exception as e:
                    ch.flag("harness", "deviation action raised %s" % type(e).__name__, "%s: %r" % (m[c - 1][0], e))
        if 0 in ticks:
            deviate(0)
        connect_client(w, 0)
        connect_client(w, 1)
        bundles = []
        shutdown_at = 80     # later than (last deviation tick + connection timeout of 32 ticks): silence timeouts happen inside the run
        for t in range(1, 170):
            if t in ticks:
                deviate(t)
            if t == 8:
                client_send(w, 0)
                client_send(w, 1)
            if t == 10 and w.clients[1].client is not None and w.clients[1].client.conn is not None:
                # three messages queued in one frame travel in ONE datagram: the handler sees all of them or none
                ce1 = w.clients[1]
                first = ce1.nsent + 1
                for _ in range(3):
                    client_send(w, 1, b"bundle")
                bundles.append((1, ce1.session, tuple(range(first, ce1.nsent + 1))))
            if t == 12:
                client_send(w, 1)
            if t == 16 and w.clients[0].client.conn is not None:
                w.clients[0].client.disconnect()
            if t == 30:
                # probe: whoever is connected on both ends must still be served
                probes = []
                for ce in w.clients:
                    sc = w.ctxt.connections.get(ce.addr)
                    if (ce.client.conn is not None and ce.client.conn.status == ConnectionStatus.CONNECTED and sc is not None
                            and sc.status == ConnectionStatus.CONNECTED and sc.session_key_bytes == ce.client.conn.session_key_bytes and w.ctxt._active):
                        client_send(w, ce.index, b"probe")
                        probes.append((ce.index, ce.session))
            if t == shutdown_at:
                w.ctxt.shutdown()
            for k_, data_, t0_ in mon.replays:
                if (t - t0_) % 8 == 0 and t > t0_ and w.ctxt._active:
                    w.inject("s", data_, client_addr=w.clients[k_].addr, note="replay")
            w.tick()
            # silence timeout: connection timeout 0.5 s = 32 ticks; a client that stopped sending is disconnected in time
            for (k_, sess_), t0_ in mon.silent_since.items():
                if w.ctxt._active and t - t0_ == 32 + 10 and t < shutdown_at - 2:
                    sids = [s_ for s_, o_ in mon.owner.items() if o_ == (k_, sess_)]
                    if any(mon.state.get(s_) == "connected" for s_ in sids):
                        ch.flag("disconnect-once", "a client that went silent is not disconnected after the connection timeout%s" % (
                            " (old datagrams of it keep arriving)" if any(r[0] == k_ for r in mon.replays) else ""),
                            "client %d session %d silent since tick %d, still connected at tick %d (timeout 32 ticks)" % (k_, sess_, t0_, t))
            if mon.cr_replaced and not mon.cr_keep and w.clients[1].client is not None and w.clients[1].client.conn is not None and not getattr(mon, "c1_stopped", False):
                mon.c1_stopped = True
                w.clients[1].client.forceDisconnect()      # the rogue peer never completes the handshake
            if w.baton.dead:
                break
        ch.steps = w.tickno
        if not w.baton.dead:
            ch.flag("shutdown", "the server loop did not end after ctxt.shutdown()", "")
        if w.baton.error is not None:
            ch.flag("thread-alive", "the server thread died with an exception", repr(w.baton.error))
        names = [e[0] for e in w.handler_log]
        if names.count("shutdown") != 1 or names[-1] != "shutdown":
            ch.flag("shutdown", "the shutdown event is not the single last handler event", "%r" % names[-3:])
        left = [s for s, st in mon.state.items() if st == "connected"]
        if left:
            ch.flag("disconnect-once", "after shutdown a connected client never got its disconnect event", "%r" % left)
        for idx, sess, ns in bundles:
            got = [n for n in ns if (idx, sess, n) in mon.tag_delivered]
            if got and len(got) != len(ns):
                ch.flag("events-keep-flowing", "messages that arrived in one datagram were only partly handed to the handler", "client %d session %d: bundle %r, handler saw %r" % (idx, sess, ns, got))
        for who in locals().get("probes", []):
            # the probe only has to arrive if nothing (deviation or default program) ended that client before it could
            sid = [s for s, o in mon.owner.items() if o == who]
            ended_early = False
            if who not in mon.delivered_probes:
                # it must be explained by an event of this execution: the client object got its disconnect, or the server shut down
                explained = any(mon.state.get(s) == "disconnected" for s in sid)
                if not explained:
                    ch.flag("events-keep-flowing", "a connected client's message never reached the handler although nothing disconnected it", "probe of %r" % (who,))
        if w.decoy_log:
            kinds = sorted(set(n for n, _ in w.decoy_log))
            ch.flag("single-handler", "a handler that was replaced before the server was started still receives events (%s)" % ",".join(kinds),
                    "ctxt.handler was set to the application's handler after the server object was built and before run(): the first handler got %d calls, first %r" % (len(w.decoy_log), w.decoy_log[:3]))
        ch.outcome = (tuple(n for n in names if n != "update"), tuple(sorted(mon.state.values())))
    finally:
        for v in mon.violations:
            ch.flag(*v)
        w.close()
        if alog:
            _alog_cleanup()


def run(tier, seed):
    rep = core.Report()
    if tier == "quick":
        ticks = (0, 1, 3, 6, 9, 13, 17, 20, 26, 31)
        plist = [(ticks, "cs"), ((0, 9, 20), "cs|swap"), ((0, 9, 20), "cs|alog")]
        bound = 2
    else:
        ticks = (0, 1, 2, 3, 4, 5, 6, 7, 9, 11, 13, 15, 17, 18, 20, 24, 26, 31, 33)
        plist = [(ticks, "cs"), (ticks, "sc"), ((0, 3, 9, 13, 20, 31), "cs|swap"), ((0, 3, 9, 13, 20, 31), "cs|alog")]
        bound = 2
    st = explore.explore_all("checks.c10", "scenario", plist, bound, time_budget=(1200 if tier == "quick" else 4800))
    if tier == "thorough":
        # every tick position with a single deviation (complete), in both endpoint orders
        allticks = tuple(range(0, 40))
        st1 = explore.explore_all("checks.c10", "scenario", [(allticks, "cs"), (allticks, "sc")], 1, time_budget=900)
        st.merge(st1)
        st.sig_counts = dict(getattr(st, "sig_counts", {}))
        for k, v in getattr(st1, "sig_counts", {}).items():
            st.sig_counts[k] = st.sig_counts.get(k, 0) + v
    acc = {}
    sig_counts = getattr(st, "sig_counts", {})
    for v in st.violations:
        key = (v["oracle"], v["sig"])
        if key not in acc:
            acc[key] = [sig_counts.get(key, 1), {"params": v["params"], "choices": v["choices"], "labels": v["labels"]}, v["message"] + " | deviations=%r" % (v["labels"],)]
    for (oracle, sig), (cnt, wit, msg) in sorted(acc.items()):
        rep.add_violation(core.Violation(oracle, sig, wit, "%s [%d executions]" % (msg[:400], cnt)))
    rep.coverage = {
        "states": st.points, "transitions": st.steps, "traces_validated_against_impl": st.executions,
        "executions": st.executions, "by_deviations": st.by_cost, "deviation_ticks": list(ticks), "capped": st.capped,
        "distinct_outcomes": len(st.outcomes), "evaluations": st.executions, "distinct_nontrivial": len(st.outcomes),
        "rule": "every choice of <=%d deviations from a menu of ~50 kinds at %d tick positions of a two-client run with shutdown; outcomes = distinct (handler event sequence, final automaton states)" % (bound, len(ticks)),
        "exhaustive": not st.capped, "samples": st.samples[:4],
        # repeated (correct) challenge responses with fresh numbers: kinds offered by the menu
        "challenge_retry_kinds": {
            "live_connection_library_path": 3, "live_connection_bundles": ["/".join(str(t.value) for t in ts_) for ts_ in MALICIOUS_RETRY],
            "handshake_datagram": ["/".join(str(t.value) for t in ts_) for ts_ in HALF_OPEN_RETRY],
            "queued_in_connect_callback": ["client %d x%d%s" % (k, c, "+msg" if m else "") for k in (0, 1) for c, m in RETRY_AT_CONNECT],
        },
    }
    rep.assumptions = ["client objects are identified by a harness serial with a strong reference (not by id())",
                       "token collisions are injected as 'the generator repeats its last answer'", "connection timeout 0.5 s, temp timeout 0.25 s, tick 1/64 s"]
    return rep


def replay(witness):
    ch = explore.replay_choices(scenario, _tup(witness["params"]), witness["choices"])
    return [core.Violation(o, s, witness, m) for o, s, m in ch.found]


def _tup(x):
    if isinstance(x, list):
        return tuple(_tup(i) for i in x)
    return x
