"""C13 - serializer: decode(encode(v)) == v, encodings are self-delimiting,
out-of-domain values are refused.

Engine C: bounded-exhaustive value grammar (depth <= 3, width <= 2), every
value also encoded twice in a row followed by a trailer.
"""
import io
import gzip
import math
import struct
import itertools
from typing import Dict

from mc import core

core.import_repo()
from mpgameserver.serializable import (Serializable, SerializableEnum, serialize_value, deserialize_value)  # noqa

PROPERTY = "C13"
LEVEL = "exploration"


class C13Color(SerializableEnum):
    RED = 1
    GREEN = 2
    BIG = 70000


class C13Shape(SerializableEnum):
    """shares its values with C13Color: a member must come back as a member of ITS class"""
    SQUARE = 1
    CIRCLE = 2


class C13Tag(SerializableEnum):
    A = b"a"
    B = b"\x00bb"


class C13Empty(Serializable):
    pass


class C13One(Serializable):
    x: object = None


class C13Uno(Serializable):
    """same field layout as C13One"""
    x: object = None


class C13Three(Serializable):
    a: object = None
    b: object = None
    c: object = None


class C13Defaults(Serializable):
    """fields whose class defaults are NOT None, and container-annotated fields (which __init__ pre-fills)"""
    name: str = "anonymous"
    hp: int = 100
    team: C13Color = C13Color.RED
    items: list = None
    scores: Dict[str, int] = None
    flag: bool = True
    ratio: float = 0.5
    blob: bytes = b"default"


def _wide_class(n):
    """a message class with n public fields (the field count has its own integer encoding: 1, 2 bytes ...)"""
    ns = {"__annotations__": {}, "__module__": __name__}
    for i in range(n):
        ns["f%03d" % i] = None
        ns["__annotations__"]["f%03d" % i] = object
    return type(Serializable)("C13Wide%d" % n, (Serializable,), ns)


WIDE_CLASSES = {}


def wide_classes():
    """registered on first use only: C14 shares this module's registry, and merely constructing an instance of a 300-field
    class costs ~2000 calls whatever the input is, which is no business of C14's per-input-byte work bound"""
    if not WIDE_CLASSES:
        for n in (126, 127, 128, 129, 200, 255, 256, 257, 300):
            WIDE_CLASSES[n] = _wide_class(n)
    return WIDE_CLASSES


INTS = [0, 1, -1, 127, -127, 128, -128, 129, -129, 32767, -32767, 32768, -32768, 32769, -32769,
        2 ** 31 - 1, -(2 ** 31 - 1), 2 ** 31, -2 ** 31, 2 ** 31 + 1, -(2 ** 31 + 1), 2 ** 63 - 1, -2 ** 63, 255, 256, 65535, 65536]
FLOATS = [0.0, -0.0, 1.5, 3.14, 1e38, 1.401298464324817e-45, float("inf"), float("-inf"), float("nan"), -2.5]
STRS = ["", "a", "é", "日本", "\x00", "x" * 128, "x" * 127]
BYTES = [b"", b"\x00", b"a" * 127, b"b" * 128, b"c" * 129]
SCALARS = [True, False, None] + INTS + FLOATS + STRS + BYTES + [C13Color.RED, C13Color.BIG, C13Tag.B, C13Shape.SQUARE, C13Shape.CIRCLE]
HASHABLE = [v for v in SCALARS]
# thinned representative sets for the deeper levels
S_THIN = [True, None, 0, -1, 128, -32769, 2 ** 31, -2 ** 63, 1.5, float("nan"), "", "日本", b"", b"b" * 128, C13Color.GREEN]
K_THIN = [False, 0, 1, -129, 2 ** 63 - 1, 1.5, "", "a", b"\x00", None, C13Color.RED, C13Tag.A, (1, "a"), (), ((0,), b"")]


def canon(v):
    """structural identity: tuples == lists, floats at float32, nan == nan, bool is not int"""
    if isinstance(v, bool):
        return ("b", v)
    if isinstance(v, int):
        return ("i", v)
    if isinstance(v, float):
        return ("f", struct.pack(">f", v) if not math.isnan(v) else b"nan")
    if isinstance(v, str):
        return ("s", v)
    if isinstance(v, bytes):
        return ("y", v)
    if v is None:
        return ("n",)
    if isinstance(v, (list, tuple)):
        return ("l", tuple(canon(x) for x in v))
    if isinstance(v, (set, frozenset)):
        return ("S", frozenset(canon(x) for x in v))
    if isinstance(v, dict):
        return ("d", frozenset((canon(k), canon(x)) for k, x in v.items()))
    if isinstance(v, SerializableEnum):
        return ("e", type(v).__name__, canon(v.value))
    if isinstance(v, Serializable):
        return ("o", type(v).__name__, tuple(canon(getattr(v, f)) for f in v._fields))
    return ("?", repr(type(v)))


def enum_clash(a, b):
    """SerializableEnum.__eq__ raises when compared with a non-enum of equal hash: building such a
    set/dict fails before the serializer is involved, so those combinations are not values of the grammar"""
    try:
        {a, b}
        return False
    except Exception:
        return True


def gen_values(tier, wide=True):
    """yield (value, shape-label) simplest first; finite and fully enumerated"""
    for v in SCALARS:
        yield v, "scalar"
    # depth 2: containers over all scalars, width <= 2
    for v in SCALARS:
        yield [v], "list1"
        yield (v,), "tuple1"
        yield {v}, "set1"
        yield C13One(x=v), "class1"
    # every field of a class with non-None defaults / container annotations set to None, to a non-default value, or left
    alts = {"name": [None, "", "bob"], "hp": [None, 0, -1], "team": [None, C13Color.GREEN], "items": [None, [], [1]], "scores": [None, {}, {"a": 1}],
            "flag": [None, False], "ratio": [None, 0.0], "blob": [None, b""]}
    for field, vals in alts.items():
        for v in vals:
            yield C13Defaults(**{field: v}), "class-defaults one field"
    for combo in itertools.product(*[vals[:2] for vals in alts.values()]):
        yield C13Defaults(**dict(zip(alts.keys(), combo))), "class-defaults all fields"
    yield [C13Defaults(name=None), {"k": C13Defaults(items=None, hp=None)}], "class-defaults nested"
    # look-alikes: equal enum values in two enum classes, equal field layouts in two classes, in both orders
    for a, b in ((C13Color.RED, C13Shape.SQUARE), (C13Shape.CIRCLE, C13Color.GREEN), (C13One(x=1), C13Uno(x=1)), (C13Uno(x=None), C13One(x=None)),
                 (C13One(x=C13Shape.SQUARE), C13One(x=C13Color.RED))):
        yield b, "look-alike"
        yield a, "look-alike"
        yield [a, b, a], "look-alike"
        yield {"p": b, "q": a}, "look-alike"
        yield C13Three(a=b, b=a, c=[a, b]), "look-alike"
    # classes with many fields: the field count crosses the 1-byte / 2-byte integer encodings
    for n, cls in (wide_classes() if wide else {}).items():
        last = "f%03d" % (n - 1)
        yield cls(), "wide-class %d fields" % n
        yield cls(**{"f000": -500, last: "end"}), "wide-class %d fields" % n
        yield cls(**dict(("f%03d" % i, i - 130) for i in range(n))), "wide-class %d fields" % n
        yield [cls(**{last: 1}), 7, cls(f000=b"x")], "wide-class %d fields" % n
        yield C13One(x=cls(**{"f001": [cls()]})), "wide-class %d fields" % n
    yield [], "list0"
    yield (), "tuple0"
    yield set(), "set0"
    yield {}, "dict0"
    yield C13Empty(), "class0"
    for a, b in itertools.product(SCALARS, repeat=2):
        yield [a, b], "list2"
    for a, b in itertools.product(SCALARS, repeat=2):
        yield (a, b), "tuple2"
        if not enum_clash(a, b):
            yield {a, b}, "set2"
        yield C13Three(a=a, b=b, c=[a]), "class3"
    for k in K_THIN + HASHABLE:
        for v in SCALARS:
            yield {k: v}, "dict1"
    for (k1, k2) in itertools.combinations(K_THIN, 2):
        if enum_clash(k1, k2):
            continue
        for v in S_THIN[:6]:
            yield {k1: v, k2: [v]}, "dict2"
    # depth 3: containers over a representative set of depth-2 values
    d2 = [[], [1, "a"], (None, 1.5), {1, "a"}, set(), {}, {"k": [1]}, {1: {2: 3}}, C13Empty(), C13One(x=[1]), C13Three(a=1, b="b", c=None),
          [C13Color.RED], {C13Color.GREEN: C13Tag.A}, {(1, 2)}, {(1, (2, 3)): "t"}, [b"x" * 129], [2 ** 63 - 1, -2 ** 63]]
    d2 = d2 + [[x] for x in S_THIN] + [{"f": x} for x in S_THIN[:8]] + [(x, x) for x in S_THIN[8:]]
    for a in d2:
        yield [a], "deep-list1"
        yield {"k": a}, "deep-dict1"
        yield C13One(x=a), "deep-class1"
    for a, b in itertools.product(d2, repeat=2):
        yield [a, b], "deep-list2"
        yield (a, b), "deep-tuple2"
        yield {1: a, "b": b}, "deep-dict2"
        yield C13Three(a=a, b=b, c=(a, b)), "deep-class3"
    if tier == "thorough":
        for a, b, c in itertools.product(d2 + S_THIN[:8], repeat=3):
            yield [a, [b, {0: c}]], "deep4-list"
            yield C13One(x={"k": (a, C13One(x=b), [c])}), "deep4-class"
        for a, b in itertools.product(SCALARS, repeat=2):
            yield {"a": a, 2: b}, "dict2-all"
            yield C13Three(a=a, b=b, c=None), "class3-all"


class _IntSub(int):
    pass


L_BYTES = 2 ** 20
L_ARRAY = 2 ** 14
WIDE = ["a", "\u00e9", "\u20ac", "\U0001f600"]  # 1, 2, 3, 4 byte code points


def sized_str(ch, nbytes):
    """a string of ch (padded with ascii) whose utf-8 encoding has exactly nbytes bytes"""
    w = len(ch.encode("utf-8"))
    n = nbytes // w
    return ch * n + "x" * (nbytes - n * w)


def at_limit_values():
    """values exactly at (and just below) the documented size limits: in the domain, must round trip"""
    out = []
    for ch in WIDE:
        w = len(ch.encode("utf-8"))
        for nbytes in (L_BYTES - w, L_BYTES - 1, L_BYTES):
            out.append((sized_str(ch, nbytes), "str of %d-byte chars, %s bytes encoded" % (w, "limit" if nbytes == L_BYTES else "limit-%d" % (L_BYTES - nbytes))))
    out.append((C13One(x=sized_str("\u00e9", L_BYTES)), "class field: str of 2-byte chars at the byte limit"))
    out.append(([1, {"k": sized_str("\u20ac", L_BYTES)}], "nested: str of 3-byte chars at the byte limit"))
    for n in (L_BYTES - 1, L_BYTES):
        out.append((b"\x01" * n, "bytes of length limit%+d" % (n - L_BYTES)))
    for n in (L_ARRAY - 1, L_ARRAY):
        out.append(([None] * n, "list of length limit%+d" % (n - L_ARRAY)))
        out.append((tuple([0] * n), "tuple of length limit%+d" % (n - L_ARRAY)))
        out.append((set(range(n)), "set of size limit%+d" % (n - L_ARRAY)))
        out.append(({i: None for i in range(n)}, "dict of size limit%+d" % (n - L_ARRAY)))
    return out


def out_of_domain():
    over = []
    for ch in WIDE:
        w = len(ch.encode("utf-8"))
        for extra in sorted({1, w, w + 1}):
            over.append((sized_str(ch, L_BYTES + extra), "str of %d-byte chars, limit+%d bytes encoded (%s characters)" % (
                w, extra, "<= 2**20" if len(sized_str(ch, L_BYTES + extra)) <= L_BYTES else "> 2**20")))
    over.append((C13One(x=sized_str("\u00e9", L_BYTES + 2)), "class field: str of 2-byte chars, limit+2 bytes"))
    over.append(([sized_str("\u20ac", L_BYTES + 3)], "list containing str of 3-byte chars, limit+3 bytes"))
    return over + [
        (2 ** 63, "int 2**63"), (-2 ** 63 - 1, "int -2**63-1"), (2 ** 64, "int 2**64"), (10 ** 30, "int 1e30"),
        ("x" * (2 ** 20 + 1), "str 2**20+1"), (b"x" * (2 ** 20 + 1), "bytes 2**20+1"),
        ([0] * (2 ** 14 + 1), "list 2**14+1"), (tuple([0] * (2 ** 14 + 1)), "tuple 2**14+1"),
        (set(range(2 ** 14 + 1)), "set 2**14+1"), ({i: 0 for i in range(2 ** 14 + 1)}, "dict 2**14+1"),
        (object(), "object()"), (1j, "complex"), (_IntSub(5), "int subclass"), (1e39, "float > float32 max"), (-1e39, "float < -float32 max"),
        (frozenset([1]), "frozenset"), (bytearray(b"ab"), "bytearray"), ([1, object()], "list containing object()"),
        ({"k": 2 ** 63}, "dict containing 2**63"), (C13One(x=2 ** 64), "class field 2**64"), (range(3), "range"),
    ]


def encode(v):
    s = io.BytesIO()
    serialize_value(s, v)
    return s.getvalue()


TRAILER = b"\xee\xff\x00"


def check_value(v, label):
    """returns (class, violation or None)"""
    try:
        enc = encode(v)
    except Exception as e:
        return "encode-raises", ("encode-raises", "in-domain value refused: %s" % label, "serialize_value(%.80r) raised %r" % (v, e))
    want = canon(v)
    try:
        got = deserialize_value(io.BytesIO(enc))
    except Exception as e:
        return "decode-raises", ("decode-raises", "encoding of an in-domain value cannot be decoded: %s" % describe(v, label),
                                 "decode(encode(%.80r)) raised %r" % (v, e))
    if canon(got) != want:
        return "mismatch", ("round-trip", "decode(encode(v)) != v: %s" % describe(v, label), "v=%.80r got %.80r" % (v, got))
    # self delimitation
    stream = io.BytesIO(enc + enc + TRAILER)
    try:
        g1 = deserialize_value(stream)
        p1 = stream.tell()
        g2 = deserialize_value(stream)
        rest = stream.read()
    except Exception as e:
        return "concat-raises", ("self-delimiting", "concatenated encodings do not decode: %s" % label, "v=%.80r: %r" % (v, e))
    if p1 != len(enc) or canon(g1) != want or canon(g2) != want or rest != TRAILER:
        return "concat-mismatch", ("self-delimiting", "decoder consumed %s bytes than the encoding has: %s" % ("more" if p1 > len(enc) else "fewer/other", label),
                                   "v=%.80r len(enc)=%d consumed=%d rest=%r" % (v, len(enc), p1, rest))
    return "ok", None


def reuse_cases():
    """the encoding is a function of the VALUE, not of what the object went through: an object that was encoded once, then
    changed (a container field mutated in place, a field of a nested object assigned, a plain assignment), then encoded
    again.  yields (label, value, mutate)"""
    p1 = C13One(x=[1])
    yield "list field appended in place", p1, lambda: p1.x.append(2)
    p2 = C13One(x={"a": 1})
    yield "dict field item assigned in place", p2, lambda: p2.x.__setitem__("b", 2)
    p3 = C13One(x={1})
    yield "set field added in place", p3, lambda: p3.x.add(-129)
    inner = C13One(x=1)
    p4 = C13Three(a=inner, b=[inner], c=None)
    yield "field of a nested object assigned", p4, lambda: setattr(inner, "x", 100)
    p5 = C13Defaults(items=[1, 2], scores={"a": 1})
    yield "container fields of a class with defaults changed in place", p5, lambda: (p5.items.pop(), p5.scores.clear())
    p6 = C13One(x=1)
    yield "plain attribute assignment", p6, lambda: setattr(p6, "x", "two")
    q = C13One(x=[0])
    v7 = [q, q, {"k": q}]
    yield "the same object several times in one value, changed in place", v7, lambda: q.x.__setitem__(0, 5)
    p8 = C13Three(a=[], b={}, c=set())
    yield "empty container fields filled in place", p8, lambda: (p8.a.append(None), p8.b.__setitem__(0, False), p8.c.add(b""))


def check_reuse():
    out = []
    n = 0
    for label, v, mutate in reuse_cases():
        for step in ("first encoding", "after the change", "after the change, encoded a third time"):
            n += 1
            cls, bad = check_value(v, "re-used object: %s (%s)" % (label, step))
            if not bad and isinstance(v, Serializable):
                bad = check_api(v, "re-used object: %s (%s)" % (label, step))
            if bad:
                out.append(bad)
                break
            if step == "first encoding":
                mutate()
    return n, out


def check_api(v, label):
    """a Serializable value of the grammar through the PUBLIC entry points: dumpb -> loadb (bytes and stream form, twice in a
    row plus trailer) and dumpz -> loadz.  returns a violation tuple or None"""
    want = canon(v)
    try:
        p = v.dumpb()
    except Exception as e:
        return ("encode-raises", "in-domain value refused by dumpb: %s" % label, "%.80r.dumpb() raised %r" % (v, e))
    try:
        got = Serializable.loadb(p)
        stream = io.BytesIO(p + v.dumpb() + TRAILER)
        g1 = Serializable.loadb(stream)
        p1 = stream.tell()
        g2 = Serializable.loadb(stream)
        rest = stream.read()
    except Exception as e:
        return ("decode-raises", "loadb(dumpb(v)) raises: %s" % describe(v, label), "v=%.80r: %r" % (v, e))
    if canon(got) != want or canon(g1) != want or canon(g2) != want:
        return ("round-trip", "loadb(dumpb(v)) != v: %s" % describe(v, label), "v=%.80r got %.80r" % (v, got))
    if p1 != len(p) or rest != TRAILER:
        return ("self-delimiting", "loadb consumed other than the bytes dumpb produced: %s" % label,
                "v=%.80r len(dumpb)=%d consumed=%d rest=%r" % (v, len(p), p1, rest))
    try:
        z = v.dumpz()
        gz = Serializable.loadz(z)
    except Exception as e:
        return ("decode-raises", "loadz(dumpz(v)) raises: %s" % describe(v, label), "v=%.80r: %r" % (v, e))
    if canon(gz) != want:
        return ("round-trip", "loadz(dumpz(v)) != v: %s" % describe(v, label), "v=%.80r got %.80r" % (v, gz))
    return None


# ---- histories of calls in one process -------------------------------------------------------------------------------------
# The property is stated per value, so it holds for a value whatever the process did before: other encodes, encodes that were
# (correctly) REFUSED part-way, decodes, decodes of damaged bytes that raised.  Alphabet of operations, explored exhaustively
# up to HIST_DEPTH operations in a row.  Every operation is judged by the property alone (never by comparison with an
# earlier run): a valid encode must decode back to the value and be consumed exactly, an out-of-domain value must be refused
# (or decode back exactly), a valid decode must yield the value and consume exactly; at the end of a history the encodings it
# produced, concatenated, must decode one after another.  Damaged decodes are perturbations only (C14 judges them).

def hist_values():
    good = [
        ("A", C13Three(a=C13Color.BIG, b="héllo", c=[1, {"k": -70000}, None])),
        ("B", C13Defaults()),
        ("E", C13Empty()),
    ]
    bad = [  # (name, nesting depth at which the encoder meets the offending part, value)
        ("int beyond 64 bits in a field", 1, C13One(x=2 ** 70)),
        ("unsupported type in a list field, after two fields and two items", 2, C13Three(a="ok", b=[1, 2, object()], c=None)),
        ("int beyond 64 bits three containers down", 3, C13One(x={"k": C13One(x=[b"z", 2 ** 64])})),
        ("over-long list as last field", 1, C13Three(a=1, b=b"\xff" * 40, c=[0] * (L_ARRAY + 1))),
        ("float beyond float32 in a nested object", 2, C13Three(a=C13Three(a=None, b=1e39, c=None), b=None, c=None)),
        ("over-long string as first field", 1, C13Three(a="x" * (L_BYTES + 1), b=None, c=None)),
    ]
    return good, bad


def _enc_dumpb(v):
    return ("b", v.dumpb())


def _enc_dumpz(v):
    return ("z", v.dumpz())


def _enc_value(v):
    s = io.BytesIO()
    serialize_value(s, v)
    return ("b", s.getvalue())


def _enc_list(v):
    """the value as an item of a plain list (a non-Serializable top level value)"""
    s = io.BytesIO()
    serialize_value(s, [v, 7])
    return ("l", s.getvalue())


ENCODERS = [("dumpb", _enc_dumpb), ("dumpz", _enc_dumpz), ("serialize_value", _enc_value), ("serialize_value in a list", _enc_list)]


def _decode_payload(form, payload):
    """-> (value, consumed == all)"""
    if form == "z":
        raw = io.BytesIO(gzip.decompress(payload))     # the encoded bytes are what the gzip member holds
        deserialize_value(raw)
        return Serializable.loadz(payload), raw.read() == b""
    stream = io.BytesIO(payload)
    got = Serializable.loadb(stream)
    exact = stream.tell() == len(payload)
    if form == "l":
        if not (isinstance(got, list) and len(got) == 2 and canon(got[1]) == canon(7)):
            return got, False
        got = got[0]
    return got, exact


def hist_ops():
    """[(name, kind, fn)] where fn() -> None (fine) or (oracle, what) ; built once per process"""
    good, bad = hist_values()
    ops = []
    produced = []   # encodings made by the valid encodes of the running history (bytes form only)

    def valid_encode(vname, v, ename, enc):
        want = canon(v)

        def fn():
            try:
                form, payload = enc(v)
            except Exception as e:
                return ("encode-raises", "a valid message is refused: %r" % (e,))
            try:
                got, exact = _decode_payload(form, payload)
            except Exception as e:
                return ("decode-raises", "the %d bytes it returned cannot be decoded: %r" % (len(payload), e))
            if canon(got) != want:
                return ("round-trip", "the %d bytes it returned decode to %.90r instead of %.90r" % (len(payload), got, v))
            if not exact:
                return ("self-delimiting", "the %d bytes it returned are not consumed exactly by the decoder" % len(payload))
            if form == "b":
                produced.append((payload, want))
            return None
        ops.append(("%s of valid message %s" % (ename, vname), "%s of a valid message" % ename, fn))

    def refused_encode(bname, depth, v, ename, enc):
        def fn():
            try:
                form, payload = enc(v)
            except Exception:
                return None
            try:
                got, exact = _decode_payload(form, payload)
                same = exact and canon(got) == canon(v)
            except Exception:
                same = False
            return None if same else ("out-of-domain", "the out-of-domain value was accepted and the bytes do not decode back to it")
        ops.append(("%s of a message with %s" % (ename, bname), "%s refused part-way (nesting depth %d)" % (ename, depth), fn))

    for vname, v in good:
        for ename, enc in ENCODERS:
            if vname == "E" and ename != "dumpb":
                continue
            valid_encode(vname, v, ename, enc)
    for bname, depth, v in bad:
        for ename, enc in ENCODERS[:3]:
            if v is bad[-1][2] and ename != "dumpb":
                continue    # a megabyte string: once is enough
            refused_encode(bname, depth, v, ename, enc)

    # decodes: the inputs are encoded here, once, when the table is built (before this process ran any refused operation)
    a = good[0][1]
    wire = _enc_value(a)[1]
    wire_b = _enc_value(good[1][1])[1]
    wire_z = a.dumpz()

    def valid_decode(name, kind, call, data, v):
        want = canon(v)

        def fn():
            try:
                got, consumed = call(data)
            except Exception as e:
                return ("decode-raises", "valid bytes cannot be decoded: %r" % (e,))
            if canon(got) != want:
                return ("round-trip", "valid bytes decode to %.90r instead of %.90r" % (got, v))
            if consumed is not None and consumed != len(data):
                return ("self-delimiting", "decoder consumed %d of %d bytes" % (consumed, len(data)))
            return None
        ops.append((name, kind, fn))

    def via_stream(data):
        s = io.BytesIO(data + TRAILER)
        got = Serializable.loadb(s)
        n = s.tell()
        return got, (n if s.read() == TRAILER else -1)

    valid_decode("loadb(bytes) of message A", "loadb of valid bytes", lambda d: (Serializable.loadb(d), None), wire, a)
    valid_decode("loadb(stream) of message B followed by a trailer", "loadb of valid bytes", via_stream, wire_b, good[1][1])
    valid_decode("loadz(bytes) of message A", "loadz of valid bytes", lambda d: (Serializable.loadz(d), None), wire_z, a)

    def damaged(name, kind, call):
        def fn():
            try:
                call()
            except Exception:
                pass
            return None
        ops.append((name, kind, fn))

    damaged("loadb of message A cut in the middle", "loadb of damaged bytes (raises)", lambda: Serializable.loadb(wire[:len(wire) // 2]))
    damaged("loadb of message A cut after the field count", "loadb of damaged bytes (raises)", lambda: Serializable.loadb(wire[:5]))
    damaged("loadb of an unknown type id", "loadb of damaged bytes (raises)", lambda: Serializable.loadb(b"\xff\xf0" + wire[2:]))
    damaged("loadz of a gzip stream cut in the middle", "loadz of damaged bytes (raises)",
            lambda: Serializable.loadz(wire_z[:-12]))
    damaged("loadz of bytes that are not gzip", "loadz of damaged bytes (raises)", lambda: Serializable.loadz(wire))
    return ops, produced


HIST_DEPTH = {"quick": 3, "thorough": 3}
_HIST = None


def _hist():
    global _HIST
    if _HIST is None:
        _HIST = hist_ops()
    return _HIST


def hist_run(indices, log, counts=None):
    """run the operations ``indices`` one after another; log = names of the operations this process ran before (latest last,
    extended in place).  returns None or (oracle, sig, witness, message) for the first operation that breaks the property"""
    ops, produced = _hist()
    del produced[:]
    for pos, i in enumerate(indices):
        name, kind, fn = ops[i]
        before = list(log[-HIST_BACK:])
        bad = fn()
        log.append(i)
        if counts is not None:
            counts.inc("history-op:" + kind)
        if bad:
            prev = ops[before[-1]][1] if before else "nothing"
            return (bad[0], "%s directly after %s: %s" % (kind, prev, _hist_what(bad[0])),
                    {"family": "history", "ops": before + [i], "names": [ops[j][0] for j in before] + [name]},
                    "%s: %s; operations run in this process just before it (latest last): %s" % (
                        name, bad[1], " ; ".join(ops[j][0] for j in before) or "none"))
    # the encodings this history produced, one after the other in one stream
    if produced:
        stream = io.BytesIO(b"".join(p for p, _ in produced) + TRAILER)
        try:
            got = [canon(Serializable.loadb(stream)) for _ in produced]
            rest = stream.read()
        except Exception as e:
            got, rest = e, None
        if rest != TRAILER or got != [w for _, w in produced]:
            return ("self-delimiting", "encodings produced in one history, concatenated, do not decode one after another",
                    {"family": "history", "ops": list(log[-len(indices):]), "names": [ops[j][0] for j in log[-len(indices):]]},
                    "history %s: concatenation of the %d encodings gives %.120r, rest %r" % (
                        " ; ".join(ops[j][0] for j in indices), len(produced), got, rest))
    return None


HIST_BACK = 3
_HIST_LOG = []


def _hist_what(oracle):
    return {"encode-raises": "a valid message is refused", "decode-raises": "the result cannot be decoded", "round-trip": "the result decodes to a different value",
            "self-delimiting": "the result is not consumed exactly", "out-of-domain": "out-of-domain value silently mis-encoded"}.get(oracle, oracle)


def hist_op_count():
    """number of operations of the alphabet WITHOUT running library code in this process (the table is built in the workers)"""
    good, bad = hist_values()
    return (len(good) - 1) * len(ENCODERS) + 1 + (len(bad) - 1) * 3 + 1 + 3 + 5


def hist_work(arg):
    """all histories of HIST_DEPTH operations that start with operation ``first``, in this (fresh) worker process"""
    first, depth = arg
    ops, _ = _hist()
    if len(ops) != hist_op_count():
        raise RuntimeError("HARNESS-ERROR: C13 history alphabet has %d operations, hist_op_count() says %d" % (len(ops), hist_op_count()))
    counts = core.Counter()
    viols = {}
    log = _HIST_LOG     # per PROCESS: a pool worker runs several items, and what it ran for the previous one still counts
    n = 0
    for rest in itertools.product(range(len(ops)), repeat=depth - 1):
        n += 1
        bad = hist_run((first,) + rest, log, counts)
        if bad:
            viols.setdefault((bad[0], bad[1]), [0, bad[2], bad[3]])[0] += 1
    return n, dict(counts), viols


def registry_check():
    """decoding with a caller-supplied registry (what load_persistant does when type ids moved between builds): the registry
    in effect decides the class at EVERY position - top level, items, set members, map keys and values, fields.  A registry
    that swaps look-alike classes must turn f(x) into f(y); an identical copy of the process registry changes nothing."""
    from mpgameserver.serializable import SerializableType
    same = dict(SerializableType.registry)
    swap = dict(same)
    for a, b in ((C13Color, C13Shape), (C13One, C13Uno)):
        swap[a.type_id], swap[b.type_id] = b, a
    pairs = [(C13Color.RED, C13Shape.SQUARE), (C13Shape.CIRCLE, C13Color.GREEN), (C13One(x=1), C13Uno(x=1)), (C13Uno(x=C13Color.RED), C13One(x=C13Shape.SQUARE))]
    places = [("top level", lambda x: x), ("list item", lambda x: [0, x]), ("tuple item", lambda x: (x, "t")), ("set member", lambda x: {x}), ("set member next to others", lambda x: {x, "s", 5}),
              ("map key", lambda x: {x: 1}), ("map value", lambda x: {"k": x}), ("map key and value", lambda x: {x: x}), ("class field", lambda x: C13Three(a=x, b=None, c=[x])),
              ("set member inside a class field", lambda x: C13Three(a={x}, b={x: 0}, c=None)), ("map key inside a list", lambda x: [{x: [x]}]), ("set inside a map value", lambda x: {"k": {x}})]
    out = []
    n = 0
    for x, y in pairs:
        for pname, f in places:
            try:
                vx, vy = f(x), f(y)
            except TypeError:
                continue      # unhashable at this position: not a value of the grammar
            for rname, reg, want in (("a registry that swaps two look-alike classes", swap, vy), ("a copy of the process registry", same, vx)):
                n += 1
                try:
                    got = deserialize_value(io.BytesIO(encode(vx)), registry=reg)
                except Exception as e:
                    out.append(("decode-raises", "decoding with %s raises: %s at %s" % (rname, type(x).__name__, pname), "%r: %r" % (vx, e)))
                    continue
                if canon(got) != canon(want):
                    out.append(("round-trip", "decoding with %s does not honour it at: %s" % (rname, pname), "encoded %.60r, decoded %.60r, expected %.60r" % (vx, got, want)))
    return n, out


def describe(v, label):
    """specific class of the failing value (for known-finding matching)"""
    def has_tuple_key(x):
        if isinstance(x, dict):
            return any(isinstance(k, tuple) for k in x) or any(has_tuple_key(k) or has_tuple_key(y) for k, y in x.items())
        if isinstance(x, (set, frozenset)):
            return any(isinstance(k, tuple) for k in x) or any(has_tuple_key(k) for k in x)
        if isinstance(x, (list, tuple)):
            return any(has_tuple_key(k) for k in x)
        if isinstance(x, Serializable):
            return any(has_tuple_key(getattr(x, f)) for f in x._fields)
        return False
    if has_tuple_key(v):
        return "tuple used as dict key or set member"
    return label


def work_init(tier):
    global _TIER
    _TIER = tier


def work(arg):
    k, n = arg
    counts = core.Counter()
    viols = {}
    distinct = set()
    total = 0
    for i, (v, label) in enumerate(gen_values(_TIER)):
        if i % n != k:
            continue
        total += 1
        cls, bad = check_value(v, label)
        counts.inc(cls)
        counts.inc("shape:" + label)
        if not bad and isinstance(v, Serializable):
            # the same value through the public entry points dumpb/loadb/dumpz/loadz
            bad = check_api(v, label)
            counts.inc("api:" + ("ok" if not bad else bad[0]))
        if bad:
            viols.setdefault((bad[0], bad[1]), [0, {"index": i, "label": label, "repr": repr(v)[:200]}, bad[2]])[0] += 1
        else:
            distinct.add(hash(canon(v)))
    return total, dict(counts), viols, len(distinct)


def run(tier, seed):
    rep = core.Report()
    n = 32
    res = core.pmap("checks.c13", "work", [((k + seed) % n, n) for k in range(n)], initargs=(tier,))
    total, distinct = 0, 0
    classes = core.Counter()
    acc = {}
    for t, counts, viols, d in res:
        total += t
        distinct += d
        for k, v in counts.items():
            classes.inc(k, v)
        for key, (cnt, wit, msg) in viols.items():
            if key not in acc:
                acc[key] = [0, wit, msg]
            acc[key][0] += cnt
    # at the documented size limits: in the domain
    for v, label in at_limit_values():
        total += 1
        cls, bad = check_value(v, label)
        classes.inc("limit:" + cls)
        if bad:
            acc[(bad[0], bad[1])] = [1, {"label": label, "family": "at-limit"}, bad[2][:300]]
        else:
            distinct += 1
    # objects that are encoded, changed and encoded again
    n_reuse, bad_reuse = check_reuse()
    total += n_reuse
    for bad in bad_reuse:
        acc[(bad[0], bad[1])] = [1, {"family": "reuse"}, bad[2][:300]]
    # histories of public-API calls in one process (fresh worker processes; first operation = work item)
    depth = HIST_DEPTH[tier]
    n_ops = hist_op_count()
    n_hist = 0
    for t, counts, viols in core.pmap("checks.c13", "hist_work", [((k + seed) % n_ops, depth) for k in range(n_ops)]):
        n_hist += t
        for k, v in counts.items():
            classes.inc(k, v)
        for key, (cnt, wit, msg) in viols.items():
            if key not in acc:
                acc[key] = [0, wit, msg[:600]]
            acc[key][0] += cnt
    total += n_hist
    # a caller-supplied registry
    n_reg, bad_reg = registry_check()
    total += n_reg
    for bad in bad_reg:
        acc.setdefault((bad[0], bad[1]), [0, {"family": "registry"}, bad[2][:300]])[0] += 1
    # out of domain
    ood = 0
    for v, label in out_of_domain():
        ood += 1
        try:
            enc = encode(v)
        except Exception:
            classes.inc("ood-refused")
            continue
        # not refused: it must at least decode to itself (then it is simply in the domain)
        try:
            got = deserialize_value(io.BytesIO(enc))
            same = canon(got) == canon(v)
        except Exception:
            same = False
        if not same:
            acc[("out-of-domain", "out-of-domain value silently mis-encoded: %s" % label)] = [1, {"label": label, "family": "out-of-domain"}, "serialize_value accepted %s and the bytes do not decode back to it" % label]
        else:
            classes.inc("ood-accepted-and-exact")
    for (oracle, sig), (cnt, wit, msg) in sorted(acc.items()):
        rep.add_violation(core.Violation(oracle, sig, wit, "%s [%d values]" % (msg, cnt)))
    rep.coverage = {
        "evaluations": total + ood, "distinct_nontrivial": distinct,
        "rule": "value grammar: %d scalars (all int width boundaries +-, float specials, utf-8/NUL/127-129 byte strings, enum members), containers list/tuple/set/dict/class of width<=2 over them, "
                "depth 3 over a representative depth-2 set (thorough: depth 4, width 3); each value: round trip + encoded twice + trailer; "
                "values exactly at the size limits (1-4 byte characters at 2**20 encoded bytes, 2**14 elements) must round trip; %d out-of-domain values must be refused. non-trivial = distinct canonical values that passed all three checks" % (len(SCALARS), ood),
        "histories": {"operations": n_ops, "depth": depth, "histories": n_hist,
                      "rule": "every sequence of %d operations from {valid encode of 3 messages via dumpb/dumpz/serialize_value/inside a list; encode of 6 "
                              "out-of-domain messages refused part-way at nesting depth 1-3 via dumpb/dumpz/serialize_value; loadb/loadz of valid bytes; "
                              "loadb/loadz of damaged bytes}, each operation judged by the property itself, produced encodings concatenated at the end" % depth,
                      "operations_run": {k[11:]: v for k, v in classes.items() if k.startswith("history-op:")}},
        "classes": {k: v for k, v in classes.items() if not k.startswith("shape:") and not k.startswith("history-op:")},
        "shapes": {k[6:]: v for k, v in classes.items() if k.startswith("shape:")},
        "exhaustive": True,
        "samples": core.safe_samples(lambda: [repr(v)[:120] for v, _ in itertools.islice(gen_values(tier), 1000, 1800, 160)]),
    }
    rep.assumptions = ["equality: structural, tuples==lists, floats at float32 precision, nan==nan, bool distinct from int, classes field-wise"]
    return rep


def replay(witness):
    work_init("thorough")
    if witness.get("family") == "at-limit":
        for v, label in at_limit_values():
            if label == witness["label"]:
                cls, bad = check_value(v, label)
                return [core.Violation(bad[0], bad[1], witness, bad[2][:300])] if bad else []
    if witness.get("family") == "history":
        bad = hist_run(witness["ops"], [])
        return [core.Violation(bad[0], bad[1], witness, bad[3][:600])] if bad else []
    if witness.get("family") == "registry":
        n, bads = registry_check()
        return [core.Violation(b[0], b[1], witness, b[2][:300]) for b in bads]
    if witness.get("family") == "reuse":
        n, bads = check_reuse()
        return [core.Violation(b[0], b[1], witness, b[2][:300]) for b in bads]
    if witness.get("family") == "out-of-domain":
        for v, label in out_of_domain():
            if label == witness["label"]:
                try:
                    enc = encode(v)
                    got = deserialize_value(io.BytesIO(enc))
                    if canon(got) == canon(v):
                        return []
                except Exception:
                    try:
                        encode(v)
                    except Exception:
                        return []
                return [core.Violation("out-of-domain", "out-of-domain value silently mis-encoded: %s" % label, witness, label)]
    for i, (v, label) in enumerate(gen_values("thorough")):
        if repr(v)[:200] == witness.get("repr") and label == witness.get("label"):
            cls, bad = check_value(v, label)
            if bad:
                return [core.Violation(bad[0], bad[1], witness, bad[2])]
            return []
    return []
