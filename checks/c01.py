"""C01 - only datagrams authenticated under the session key can affect a connection.

Engine A, fault-family form: a scripted honest prefix brings the full stack to
a *protocol point*; there every element of a structured attacker family is
injected through the real entry points (UdpClient.update over the fake socket
/ TwistedServer.datagramReceived + one iteration of the real server loop) and
a complete snapshot of the target is compared before/after.  The clock does
not move between injections, so as long as an injection has no effect the next
one starts from the same state: one world per point serves the whole family;
after any effect the world is rebuilt by replaying the prefix.

Families: (1) forged plaintext with valid/invalid CRC for every header type x
count x inner message types x datagram-seq position x ack fields x direction
magic; (2) every single-bit flip, truncation, extension and header rewrite
(with and without CRC fix-up) of genuine not-yet-received datagrams;
(3) wrong-key ciphertext, ciphertext of another session, the other direction's
ciphertext with the magic rewritten; (4) seeded random bytes (supplement, not
part of the exhaustive claim).
"""
import binascii
import itertools
import random
import struct

from mc import core, seams
from mc.world import World, Monitor, snapshot, diff_snap, conn_fields
from mc.pair import payload

core.import_repo()
from cryptography.hazmat.primitives.ciphers.aead import AESGCM  # noqa
from mpgameserver.connection import (ConnectionStatus, PacketType, RetryMode, HandshakeClientHelloMessage,
                                     HandshakeServerHelloMessage, HandshakeClientChallengeResponseMessage, Packet)  # noqa

PROPERTY = "C01"
LEVEL = "model_checking"

TO_SERVER, TO_CLIENT = b"FSOS", b"FSOC"
MARK = b"<<C01-ATTACKER-MARKER>>"
ATT_ADDR = ("10.9.9.9", 6666)
OTHER_KEY = bytes(range(100, 116))


# ---------------------------------------------------------------------------
# reference encoder (independent of the library's codec)

def body_of(msgs, outer_type):
    if len(msgs) == 0:
        return b""
    if len(msgs) == 1:
        return struct.pack(">H", msgs[0][0]) + msgs[0][2]
    return b"".join(struct.pack(">HHB", len(p), s, t) + p for s, t, p in msgs)


def header(magic, ctime, seq, ack, typ, length, count, ack_bits):
    return struct.pack(">4sLHHBHBL", magic, ctime & 0xFFFFFFFF, seq & 0xFFFF, ack & 0xFFFF, typ, length & 0xFFFF, count & 0xFF, ack_bits & 0xFFFFFFFF)


def with_crc(d, ok=True):
    crc = binascii.crc32(d) & 0xFFFFFFFF
    if not ok:
        crc ^= 0x00010000
    return d + struct.pack(">L", crc)


def seal(key, hdr, body):
    return hdr + AESGCM(key).encrypt(hdr[:12], body, hdr)


# ---------------------------------------------------------------------------
# protocol points

class Point(object):
    """a world at a protocol point + how to inject into its target + how to observe the target"""

    def __init__(self, name):
        self.name = name
        self.w = None

    def build(self):
        name = self.name
        side, what = name.split(".")
        self.side = side
        w = World(n_clients=1, autoconnect=True)
        self.w = w
        ce = w.clients[0]
        if what == "connecting":
            # hello sent, every server reply lost
            w.start_blackout("s2c", 10 ** 6)
            w.run(3)
            assert ce.conn.status == ConnectionStatus.CONNECTING and ce.conn.session_key_bytes is None
        elif what == "new":
            w.run_until_connected()
            w.run(4)
        elif what == "temp":
            # client hello delivered, the challenge response never arrives
            w.tick()
            w.start_blackout("c2s", 10 ** 6)
            w.run(3)
            assert ce.addr in w.ctxt.temp_connections, "temp pool expected"
        else:
            w.run_until_connected()
            w.run(6)
            if what == "busy":
                cb = w.make_cb("c", "c-none")
                ce.client.send(payload(1, 30), retry=0, callback=cb)
                ce.client.send(payload(2, 30), retry=-1, callback=w.make_cb("c", "c-guar"))
                sc = w.server_conn(0)
                sc.send(payload(3, 30), retry=RetryMode.NONE, callback=w.make_cb("s", "s-none"))
                sc.send_guaranteed(payload(4, 30), callback=w.make_cb("s", "s-guar"))
                # each side also gets the first fragment of a 3-fragment message, the rest is lost
                sc.send(payload(5, 2600))
                ce.client.send(payload(6, 2600), retry=0)
                w.tick()
                w.tick()
                w.start_blackout("both", 10 ** 6)
                w.net = [d for d in w.net if False]
                w.run(2)
            elif what == "disconnected":
                if side == "c":
                    ce.client.disconnect()
                else:
                    ce.client.disconnect()
                    w.run(4)   # server processes the disconnect and removes the connection
                    assert ce.addr not in w.ctxt.connections
            elif what == "kicked":
                # the SERVER closed the session; the client has processed the genuine DISCONNECT and gone through several updates
                w.server_conn(0).disconnect()
                w.run(5)
            elif what == "closed":
                # the client closed the session, the server's last datagram has arrived, several updates later
                ce.client.disconnect()
                w.run(5)
            elif what == "idle":
                pass
        # target description
        self.addr = ATT_ADDR if what == "new" else ce.addr
        self.flush()
        return self

    def target_conn(self):
        w = self.w
        if self.side == "c":
            return w.clients[0].conn
        return w.ctxt.connections.get(self.addr) or w.ctxt.temp_connections.get(self.addr)

    def has_key(self):
        c = self.target_conn()
        if self.side == "c" and self.name.split(".")[1] in ("disconnected", "kicked", "closed"):
            # this connection object completed a handshake: "once a connection holds a session key" applies for the rest of its
            # life, whatever it has done with the key since (a connection that forgets its key when the session closes is back
            # in the state in which a clear-text hello is processed)
            return c is not None
        return c is not None and c.session_key_bytes is not None

    def flush(self):
        """let the target do whatever it would do anyway at this instant"""
        w = self.w
        if self.side == "c":
            ce = w.clients[0]
            if ce.client.conn is not None:
                try:
                    ce.client.update()
                except Exception:
                    pass
                ce.delivered.extend((int(s), p) for s, p in ce.client.getMessages())
        else:
            w.baton.resume()

    def observe(self):
        w = self.w
        c = self.target_conn()
        snap, dropped = (snapshot(c) if c is not None else ({}, 0))
        honest = w.clients[0]
        other = {}
        if self.side == "s":
            other = {
                "connections": tuple(sorted(w.ctxt.connections)),
                "temp_connections": tuple(sorted(w.ctxt.temp_connections)),
                "handler_events": tuple(e[:2] + e[3:] for e in w.handler_log if e[0] != "update"),
                "queue": len(w.server.thread.queue),
                "thread_alive": not w.baton.dead,
            }
            if self.addr != honest.addr:
                hc = w.ctxt.connections.get(honest.addr)
                if hc is not None:
                    other["honest_conn"] = tuple(snapshot(hc)[0].items())
        else:
            other = {"surfaced": tuple(honest.delivered), "connect_cb": tuple(honest.connect_cb)}
        other["callbacks"] = tuple((e, t, s) for e, t, s, _ in w.callback_log)
        other["sent"] = len(w.all_sent)
        return snap, dropped, other

    def inject(self, data):
        """returns (effects: list of field names, exception or None)"""
        w = self.w
        s0, d0, o0 = self.observe()
        exc = None
        if self.side == "c":
            ce = w.clients[0]
            ce.sock.inbox.append(bytes(data))
            try:
                ce.client.update()
            except Exception as e:
                exc = e
            if ce.sock.inbox:
                del ce.sock.inbox[:]
            if ce.client.conn is not None:
                ce.delivered.extend((int(s), p) for s, p in ce.client.getMessages())
        else:
            w.server.datagramReceived(bytes(data), self.addr)
            w.baton.resume()
        s1, d1, o1 = self.observe()
        eff = []
        if set(s0) != set(s1):
            eff.append("connection-object " + ("created" if not s0 else "removed"))
        else:
            eff += diff_snap(s0, s1)
        eff += ["%s" % k for k in o0 if o0[k] != o1.get(k)]
        if d1 not in (d0, d0 + 1):
            eff.append("stats.dropped(%+d)" % (d1 - d0))
        return eff, exc

    def close(self):
        if self.w is not None:
            self.w.close()
            self.w = None


POINTS_CLIENT = ["c.connecting", "c.idle", "c.busy", "c.disconnected", "c.kicked", "c.closed"]
POINTS_SERVER = ["s.new", "s.temp", "s.idle", "s.busy", "s.disconnected"]


# ---------------------------------------------------------------------------
# attacker families

def attacker_bodies(pt):
    """inner payloads: marker APP body, DISCONNECT, hello/challenge bodies built from attacker-owned keys"""
    keys = seams.fixture_keys()
    att_root, att_eph = keys[20], keys[21]
    c = pt.target_conn()
    token = getattr(c, "token", 0) or 0x41414141
    ch = HandshakeClientHelloMessage()
    ch.client_pubkey = att_eph.getPublicKey()
    ch.client_version = 1
    ch_b = ch.dumpb()
    sh = HandshakeServerHelloMessage()
    sh.server_pubkey = att_eph.getPublicKey()
    sh.salt = b"A" * 16
    sh.token = token
    sh_b = sh.dumpb(server_root_key=att_root)
    cr = HandshakeClientChallengeResponseMessage()
    cr.token = token
    return {
        PacketType.UNKNOWN.value: b"?",
        PacketType.CLIENT_HELLO.value: ch_b,
        PacketType.SERVER_HELLO.value: sh_b,
        PacketType.CHALLENGE_RESP.value: cr.dumpb(),
        PacketType.KEEP_ALIVE.value: b"",
        PacketType.DISCONNECT.value: b"",
        PacketType.APP.value: MARK,
        PacketType.APP_FRAGMENT.value: struct.pack(">HHH", 77, 1, 1) + MARK,
    }


def forged_family(pt, tier):
    """yield (label, datagram) - family 1: plaintext with CRC"""
    c = pt.target_conn()
    to_target = TO_CLIENT if pt.side == "c" else TO_SERVER
    wrong = TO_SERVER if pt.side == "c" else TO_CLIENT
    newest = int(c.bitfield_pkt.current_seqnum) if c is not None else 0
    newest_msg = int(c.bitfield_msg.current_seqnum) if c is not None else 0
    pend = sorted(int(k) for k in c.pending_acks) if c is not None else []
    ack_all = (pend[-1] if pend else 0, 0xFFFFFFFF)
    bodies = attacker_bodies(pt)
    ctime = int(pt.w.vt.now)
    ring = lambda x: (x - 1) % 65535 + 1  # noqa
    seqs = [("seq newest+1", ring(newest + 1)), ("seq newest (duplicate)", newest), ("seq newest-40", ring(newest - 40)), ("seq newest+20000", ring(newest + 20000))]
    fresh = ring(newest_msg + 5)
    types = list(range(8))
    inner3 = [PacketType.APP.value, PacketType.DISCONNECT.value, PacketType.CLIENT_HELLO.value, PacketType.CHALLENGE_RESP.value]
    for typ in types:
        msg_lists = [("count0", []), ("count1", [(fresh, typ, bodies[typ])]), ("count1 dup-msgseq", [(newest_msg, typ, bodies[typ])])]
        for t1, t2 in itertools.product(types, repeat=2):
            msg_lists.append(("count2 inner %d,%d" % (t1, t2), [(fresh, t1, bodies[t1]), (ring(fresh + 1), t2, bodies[t2])]))
        if tier == "thorough" or typ in (1, 2, 6):
            for t1, t2, t3 in itertools.product(inner3, repeat=3):
                msg_lists.append(("count3 inner %d,%d,%d" % (t1, t2, t3), [(fresh, t1, bodies[t1]), (ring(fresh + 1), t2, bodies[t2]), (ring(fresh + 2), t3, bodies[t3])]))
        for mlabel, msgs in msg_lists:
            body = body_of(msgs, typ)
            if len(body) + 24 > Packet.MAX_SIZE:
                continue
            for si, (slabel, seq) in enumerate(seqs):
                if tier == "quick" and si and mlabel.startswith("count3"):
                    continue
                for alabel, (ack, bits) in (("ack names all pending", ack_all), ("ack none", (0, 0))):
                    if tier == "quick" and alabel == "ack none" and (si or mlabel.startswith("count2")):
                        continue
                    hdr = header(to_target, ctime, seq, ack, typ, len(body), len(msgs), bits)
                    yield ("forged crc: type %d %s, %s, %s" % (typ, mlabel, slabel, alabel), "forged plaintext+CRC, header type %d, %s" % (typ, mlabel.split(" ")[0]), with_crc(hdr + body))
                    if si == 0:
                        yield ("forged bad-crc: type %d %s" % (typ, mlabel), "forged plaintext, wrong CRC", with_crc(hdr + body, ok=False))
                        hdr2 = header(wrong, ctime, seq, ack, typ, len(body), len(msgs), bits)
                        yield ("forged wrong-direction: type %d %s" % (typ, mlabel), "forged plaintext+CRC, wrong direction magic", with_crc(hdr2 + body))
                        # same plaintext sealed under a key the endpoint does not hold
                        yield ("wrong-key gcm: type %d %s" % (typ, mlabel), "ciphertext under another key", seal(OTHER_KEY, hdr, body))
        # count 255 with a short body
        hdr = header(to_target, ctime, ring(newest + 1), 0, typ, 4, 255, 0)
        yield ("forged crc: type %d count255 short body" % typ, "forged plaintext+CRC, count 255 short body", with_crc(hdr + b"\x00\x01\x00\x02"))
        hdr = header(to_target, ctime, ring(newest + 1), 0, typ, 65535, 1, 0)
        yield ("forged crc: type %d length 65535" % typ, "forged plaintext+CRC, length field 65535", with_crc(hdr + b"ab"))


def capture_genuine(pt):
    """make the peer produce genuine datagrams for the target that the target has NOT received; returns [(label, bytes)]"""
    w = pt.w
    what = pt.name.split(".")[1]
    out = []
    if what in ("connecting", "new", "disconnected", "kicked", "closed"):
        return out
    base = len(w.all_sent)
    saved_blackout = dict(w.blackout)
    w.blackout = {"c2s": 10 ** 9, "s2c": 10 ** 9}  # everything produced now is withheld (marked lost)
    if what == "temp":
        # the genuine challenge response of the handshaking client was lost on the way: it is a genuine, unreceived datagram
        for d in w.all_sent:
            if d.src == "c0" and d.data[12] == PacketType.CHALLENGE_RESP.value:
                out.append(("CHALLENGE_RESP", d.data))
        w.blackout = saved_blackout
        return out[:1]
    peer_is_client = pt.side == "s"
    ce = w.clients[0]
    sc = w.server_conn(0)

    def peer_send(data, retry):
        if peer_is_client:
            ce.client.send(data, retry=retry)
        else:
            sc.send(data, retry=RetryMode(retry))
    # run a copy of the world forward?  No: the peer really sends; the target just never hears of it.
    # The target's own state must not move, so only the PEER is stepped (its update / its server iteration at the same instant).
    plan = [("APP", lambda: peer_send(payload(40, 20), 0)), ("APP x2", lambda: (peer_send(payload(41, 10), 0), peer_send(payload(42, 12), 0))),
            ("APP_FRAGMENT", lambda: peer_send(payload(43, 1700), 0)), ("KEEP_ALIVE", None)]
    for label, act in plan:
        n0 = len(w.all_sent)
        if act:
            act()
        # step only the peer, advancing the clock in between (the target is not stepped: it cannot notice time passing)
        for _ in range(12):
            w.vt.now += w.dt
            if peer_is_client:
                try:
                    ce.client.update()
                except Exception:
                    pass
            else:
                # the server loop steps every connection it owns; that is fine when the TARGET is the client
                w.baton.resume()
            new = [d for d in w.all_sent[n0:] if (d.src == "c0") == peer_is_client]
            if new and (label != "KEEP_ALIVE" or new[-1].data[12] == PacketType.KEEP_ALIVE.value):
                break
        for d in w.all_sent[n0:]:
            if (d.src == "c0") == peer_is_client:
                out.append((label + " (type %d)" % d.data[12], d.data))
    w.blackout = saved_blackout
    return out


def mutation_family(genuine, pt, tier):
    """family 2 + 3b: mutants of genuine datagrams"""
    to_target = TO_CLIENT if pt.side == "c" else TO_SERVER
    for glabel, g in genuine:
        n = len(g)
        # every single-bit flip of header and tag, payload: all bits if short, else first/last 64 bits
        bits = list(range(20 * 8)) + list(range((n - 16) * 8, n * 8))
        if n - 36 <= 128:
            bits += list(range(20 * 8, (n - 16) * 8))
        else:
            bits += list(range(20 * 8, 20 * 8 + 64)) + list(range((n - 16) * 8 - 64, (n - 16) * 8))
        if tier == "quick" and n > 400:
            bits = bits[::3]
        for b in sorted(set(bits)):
            m = bytearray(g)
            m[b // 8] ^= 1 << (b % 8)
            yield ("bitflip %s bit %d" % (glabel, b), "single-bit flip of a genuine %s datagram (%s)" % (glabel.split(" ")[0], "header" if b < 160 else ("tag" if b >= (n - 16) * 8 else "ciphertext")), bytes(m))
            if b < 160:
                # header flip with the trailer replaced by / extended with a recomputed CRC
                yield ("bitflip+crc %s bit %d" % (glabel, b), "header bit flip of a genuine datagram with CRC fix-up", with_crc(bytes(m[:n - 16])))
        for cut in (range(0, n) if n <= 200 or tier == "thorough" else list(range(0, 60)) + list(range(60, n - 40, 37)) + list(range(n - 40, n))):
            yield ("truncate %s at %d" % (glabel, cut), "truncated genuine datagram", g[:cut])
        yield ("extend+1 " + glabel, "extended genuine datagram", g + b"\x00")
        yield ("extend+16 " + glabel, "extended genuine datagram", g + b"\x00" * 16)
        ident, ctime, seq, ack, typ, length, count, ack_bits = struct.unpack(">4sLHHBHBL", g[:20])
        rewrites = []
        for t in range(8):
            if t != typ:
                rewrites.append(("type->%d" % t, dict(typ=t)))
        rewrites += [("seq+1", dict(seq=seq + 1)), ("seq-1", dict(seq=seq - 1)), ("ack+1", dict(ack=ack + 1)), ("ack=0", dict(ack=0)),
                     ("length+1", dict(length=length + 1)), ("length-1", dict(length=max(0, length - 1))), ("length=0", dict(length=0)),
                     ("count+1", dict(count=count + 1)), ("count=0", dict(count=0)), ("count=255", dict(count=255)),
                     ("ctime+1", dict(ctime=ctime + 1)), ("ctime-1", dict(ctime=ctime - 1)), ("ack_bits~", dict(ack_bits=ack_bits ^ 0xFFFFFFFF)),
                     ("other direction", dict(ident=TO_SERVER if ident == TO_CLIENT else TO_CLIENT))]
        for rl, kw in rewrites:
            f = dict(ident=ident, ctime=ctime, seq=seq, ack=ack, typ=typ, length=length, count=count, ack_bits=ack_bits)
            f.update(kw)
            h = header(f["ident"], f["ctime"], f["seq"], f["ack"], f["typ"], f["length"], f["count"], f["ack_bits"])
            if h == g[:20]:
                continue  # the rewrite does not change this datagram
            yield ("rewrite %s of %s" % (rl, glabel), "header field rewritten in a genuine datagram (%s)" % rl.split("-")[0].split("+")[0].split("=")[0].split("~")[0], h + g[20:])
            yield ("rewrite+crc %s of %s" % (rl, glabel), "header field rewritten (%s) with CRC fix-up" % ("type" if rl.startswith("type") else "other"), with_crc(h + g[20:n - 16]))
            yield ("rewrite+crc-appended %s of %s" % (rl, glabel), "header field rewritten (%s) with CRC appended" % ("type" if rl.startswith("type") else "other"), with_crc(h + g[20:]))


def foreign_family(pt, tier):
    """family 3: genuine ciphertext of ANOTHER session, and of this session's other direction with the magic rewritten"""
    w2 = World(n_clients=1, key_offset=9, rnd_seed=5)
    out = []
    try:
        w2.run_until_connected()
        w2.clients[0].client.send(MARK, retry=0)
        w2.server_conn(0).send(MARK)
        w2.run(4)
        for d in w2.all_sent:
            if (d.src == "s") == (pt.side == "c"):
                out.append(("foreign-session datagram type %d" % d.data[12], "genuine datagram of another session", d.data))
    finally:
        w2.close()
    # other direction of THIS session with the direction magic rewritten
    w = pt.w
    for d in w.all_sent[-30:]:
        if (d.src == "s") != (pt.side == "c") and len(d.data) >= 36:
            to_target = TO_CLIENT if pt.side == "c" else TO_SERVER
            out.append(("reflected datagram type %d" % d.data[12], "the target's own datagram reflected with the direction magic rewritten", to_target + d.data[4:]))
            # ... and byte for byte as the target sent it (valid ciphertext under the session key; only the direction
            # identifier in the authenticated header says that it was not made by the peer)
            out.append(("reflected datagram type %d, unchanged" % d.data[12], "the target's own datagram reflected unchanged", d.data))
    return out


def random_family(seed, n_each):
    rnd = random.Random(seed)
    for L in (0, 1, 19, 20, 21, 40, 1472):
        for i in range(n_each):
            yield ("random %d bytes #%d" % (L, i), "random bytes", bytes(rnd.getrandbits(8) for _ in range(L)))
            if L >= 20:
                yield ("random %d bytes with magic #%d" % (L, i), "random bytes behind a valid magic", TO_SERVER + bytes(rnd.getrandbits(8) for _ in range(L - 4)))
                yield ("random %d bytes with magic #%d" % (L, i), "random bytes behind a valid magic", TO_CLIENT + bytes(rnd.getrandbits(8) for _ in range(L - 4)))


# ---------------------------------------------------------------------------

def allowed_prekey(pt, data, eff):
    """before a key exists: the single hello of the expected type may be processed; nothing else may have an effect,
    and no application message may ever be accepted"""
    if len(data) < 20:
        return False
    typ, count = data[12], data[15]
    expected = PacketType.SERVER_HELLO.value if pt.side == "c" else PacketType.CLIENT_HELLO.value
    if typ == expected and count == 1 and len(data) >= 24:
        return True   # whether THAT hello is accepted is C02's business
    # a hello-typed datagram towards a server address without connection may create (and later expire) a pool entry
    if pt.side == "s" and typ == PacketType.CLIENT_HELLO.value and set(eff) <= {"temp_connections", "connection-object created"}:
        return True
    return False


def work_init(tier, seed):
    global _TIER, _SEED
    _TIER, _SEED = tier, seed


def work(arg):
    pname, fam, k, n = arg
    pt = Point(pname).build()
    counts = core.Counter()
    viols = {}
    total = 0
    rebuilt = 0
    accepted_genuine = 0
    try:
        genuine = capture_genuine(pt) if fam in ("mutation", "control") else []
        pt.flush()
        pt.flush()
        if fam == "forged":
            items = forged_family(pt, _TIER)
        elif fam == "mutation":
            items = mutation_family(genuine, pt, _TIER)
        elif fam == "foreign":
            items = foreign_family(pt, _TIER)
        elif fam == "random":
            items = random_family(_SEED * 1000 + 17, 64)
        else:
            items = []
        for i, (label, cls, data) in enumerate(items):
            if i % n != k:
                continue
            total += 1
            keyed = pt.has_key()
            eff, exc = pt.inject(data)
            if exc is not None:
                counts.inc("exception-from-update:" + type(exc).__name__)
            if not eff:
                counts.inc("no-effect")
                continue
            if not keyed and allowed_prekey(pt, data, eff):
                counts.inc("prekey-hello-processed")
                pt.close()
                pt = Point(pname).build()
                rebuilt += 1
                if fam == "mutation":
                    genuine = capture_genuine(pt)
                    pt.flush()
                    pt.flush()
                continue
            stage = "keyed" if keyed else "pre-key"
            surfaced = "surfaced" in eff or "handler_events" in eff or "incoming" in eff
            sig = "%s endpoint (%s) affected by %s: %s" % ("client" if pt.side == "c" else "server", stage, cls,
                                                           "application message delivered" if surfaced else "state changed")
            viols.setdefault(("unauthenticated-effect", sig), [0, {"point": pname, "family": fam, "label": label, "hex": data.hex() if len(data) < 400 else data[:400].hex()},
                                                              "at %s: %s -> changed %s" % (pname, label, eff[:8])])[0] += 1
            counts.inc("EFFECT")
            pt.close()
            pt = Point(pname).build()
            rebuilt += 1
            if fam == "mutation":
                genuine = capture_genuine(pt)
                pt.flush()
                pt.flush()
        if fam == "control":
            # positive control: the genuine datagrams themselves ARE accepted (the mutants were near-valid)
            for glabel, g in genuine:
                total += 1
                eff, exc = pt.inject(g)
                if eff:
                    accepted_genuine += 1
                else:
                    counts.inc("genuine-not-accepted:" + glabel)
    finally:
        pt.close()
    return total, dict(counts), viols, rebuilt, accepted_genuine, pname, fam


def run(tier, seed):
    rep = core.Report()
    jobs = []
    points = POINTS_CLIENT + POINTS_SERVER
    for p in points:
        for fam, n in (("forged", 6), ("mutation", 6), ("foreign", 1), ("random", 1), ("control", 1)):
            for k in range(n):
                jobs.append((p, fam, k, n))
    if seed:
        k = seed % len(jobs)
        jobs = jobs[k:] + jobs[:k]
    res = core.pmap("checks.c01", "work", jobs, initargs=(tier, seed))
    total = 0
    classes = core.Counter()
    acc = {}
    rows = {}
    controls = 0
    rebuilt = 0
    for t, counts, viols, rb, ag, pname, fam in res:
        total += t
        rebuilt += rb
        controls += ag
        rows.setdefault(pname, {}).setdefault(fam, 0)
        rows[pname][fam] += t
        for k, v in counts.items():
            classes.inc(k, v)
        for key, (cnt, wit, msg) in viols.items():
            if key not in acc:
                acc[key] = [0, wit, msg]
            acc[key][0] += cnt
    for (oracle, sig), (cnt, wit, msg) in sorted(acc.items()):
        rep.add_violation(core.Violation(oracle, sig, wit, "%s [%d injections]" % (msg[:400], cnt)))
    if controls < 10:
        rep.add_violation(core.Violation("vacuity", "positive control failed: genuine datagrams were not accepted (%d)" % controls, {}, "the mutation family would be vacuous"))
    rand = sum(v for p in rows.values() for f, v in p.items() if f == "random")
    rep.coverage = {
        "states": len(points) + rebuilt, "transitions": total, "traces_validated_against_impl": total,
        "injections": total, "injections_exhaustive_families": total - rand, "injections_random_supplement": rand,
        "per_point": rows, "outcome_classes": dict(classes), "genuine_controls_accepted": controls, "world_rebuilds_after_effect": rebuilt,
        "evaluations": total, "distinct_nontrivial": total - rand,
        "rule": "states = protocol points (client: connecting/idle/busy/disconnected; server: new address/temp pool/idle/busy/after disconnect) + rebuilds; transitions = injections through the real entry points with full before/after snapshots; "
                "non-trivial = injections of the structured (non random) families",
        "exhaustive": True,
        "samples": [{"point": "s.busy", "family": "forged", "label": "forged crc: type 1 count2 inner 6,5, seq newest+1, ack names all pending"},
                    {"point": "c.idle", "family": "mutation", "label": "rewrite+crc type->2 of APP (type 6)"},
                    {"point": "s.temp", "family": "mutation", "label": "bitflip CHALLENGE_RESP bit 163"}],
    }
    rep.assumptions = ["AES-GCM/CRC primitives trusted; 'forgeable' = constructible from public data over the stated alphabet",
                       "an exception escaping UdpClient.update for a malformed header is recorded, not a violation (the statement lists effects on the connection)",
                       "pre-key: a CLIENT_HELLO-typed datagram may create a temp-pool entry at the server (resource use is C11's); single injections (no pairs)"]
    return rep


def replay(witness):
    work_init("quick", 0)
    pt = Point(witness["point"]).build()
    try:
        data = bytes.fromhex(witness["hex"])
        keyed = pt.has_key()
        eff, exc = pt.inject(data)
        if eff and not (not keyed and allowed_prekey(pt, data, eff)):
            return [core.Violation("unauthenticated-effect", "replayed injection has an effect", witness, "changed %s" % eff[:8])]
    finally:
        pt.close()
    return []
