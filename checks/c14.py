"""C14 - deserialising hostile bytes is safe and bounded.

Engine C with a deterministic step meter (Python + C call events counted with
sys.setprofile) instead of wall time.

Families
 (i)   every truncation and every single-bit flip of a corpus: all C13
       encodings <= 36 (quick) / 64 (thorough) bytes and the three handshake messages
 (ii)  token grammar: every sequence of <= 4 (quick) / 5 (thorough) tokens over
       {type ids 1..18, two class ids, an enum id, unknown id, int8 and int32
       values at the length limits, junk}
 (iv)  registry in effect: loadb(data, registry=...) with a whitelist / remapping
       registry and a foreign type id at every position of container shapes
 (iii) crafted: nesting depth 10..3000, extreme / negative lengths in every
       length position, bad field counts, duplicate / unhashable keys, hellos
       with every wrong padding length; also with a tracemalloc peak bound
 (vi)  records of EVERY id in the class registry (the library's own
       bookkeeping classes included, not only the harness's classes): the
       shortest records (id alone, field count 0 / 1 / one too few) alone and
       repeated n times in a sequence / set / map / nested sequence, through
       loadb and inside a forged client hello; work, tracemalloc peak and the
       number of values the result holds, per input byte
All through Serializable.loadb; the handshake families also through the real
_recvClientHello / _recvChallengeResponse / _recvServerHello.
"""
import io
import sys
import signal
import struct
import itertools
import tracemalloc

from mc import core

core.import_repo()
from mpgameserver.serializable import (Serializable, SerializableEnum, SerializableType, serialize_value)  # noqa
from checks import c13  # noqa  (registers the C13 classes; corpus generator)

PROPERTY = "C14"
LEVEL = "exploration"

CALLS_PER_BYTE = 64
CALLS_BASE = 512
MEM_PER_BYTE = 64
MEM_BASE = 1024 * 1024  # covers the interpreter stack of a recursion that the recursion limit bounds (measured: <= 0.5 MB at 1000 levels)

# family (vi) only: a record is the densest input there is (5 bytes buy one instance with all its default fields), so the
# memory bound per byte is its own constant.  Measured on the unchanged library with tracemalloc: < 90 bytes per input byte
# (empty ConnectionStats records, 10 fields, 5 of them empty lists, in a set of 16384), <= 55 for every other registered class; the margin is the
# one the call bound has (64 against <= 14 observed)
REC_MEM_PER_BYTE = 256
# values reachable from the decoded result (every object counted once): measured <= 3.3 per input byte (16 values per 5-byte record)
VALUES_PER_BYTE = 16
VALUES_BASE = 64

ALLOWED = (bool, int, float, str, bytes, type(None), list, dict, set, tuple)


class BudgetExceeded(BaseException):
    """raised from inside the meter / watchdog to abort a decode that is over budget"""


class Meter(object):
    def __init__(self, limit):
        self.n = 0
        self.limit = limit

    def __call__(self, frame, event, arg):
        if event == "call" or event == "c_call":
            if not _IN_DECODE:
                return      # the bookkeeping around the decode (sys.setprofile(None) is itself a profiled C call) is not the decoder's work
            self.n += 1
            if self.n > self.limit:
                raise BudgetExceeded()


_IN_DECODE = False


def _alarm(signum, frame):
    # the watchdog counts the CPU time of this process (ITIMER_VIRTUAL), so a loaded machine cannot trip it; it only
    # interrupts the decoder itself, never the bookkeeping around it
    if _IN_DECODE:
        raise BudgetExceeded()


WATCHDOG_S = 10.0


def type_tree_ok(v, depth=0, classes=None):
    """classes: the classes of the registry in effect (default: the process-wide registry)"""
    if depth > 3000:
        return True
    if isinstance(v, (Serializable, SerializableEnum)):
        if type(v) not in (SerializableType.registry.values() if classes is None else classes):
            return False
        if isinstance(v, SerializableEnum):
            return type_tree_ok(v.value, depth + 1, classes)
        if type(v).deserialize is not Serializable.deserialize:
            # a registered class with its own decoder (the handshake messages) holds what its code builds
            return True
        return all(type_tree_ok(getattr(v, f, None), depth + 1, classes) for f in v._fields)
    if type(v) not in ALLOWED:
        return False
    if isinstance(v, (list, tuple, set)):
        return all(type_tree_ok(x, depth + 1, classes) for x in v)
    if isinstance(v, dict):
        return all(type_tree_ok(k, depth + 1, classes) and type_tree_ok(x, depth + 1, classes) for k, x in v.items())
    return True


# ---------------------------------------------------------------------------
# family (iv): the registry IN EFFECT.  deserialize_value / loadb take registry= (load_persistant uses it to remap
# stored type ids); with a caller-supplied registry the result may only hold classes of THAT registry, wherever the
# foreign type id sits in the value

def registry_shapes():
    """container shapes with one hole, as functions hole -> value; depth 1"""
    A = c13.C13One
    return [("top", lambda h: h), ("list element", lambda h: [h]), ("second list element", lambda h: [1, h]), ("tuple element", lambda h: (h, None)),
            ("set member", lambda h: {h}), ("map key", lambda h: {h: 1}), ("map value", lambda h: {1: h}), ("second map value", lambda h: {"a": 1, "b": h}),
            ("class field", lambda h: A(x=h)), ("third class field", lambda h: c13.C13Three(a=1, b=None, c=h))]


def registry_cases():
    A, B, E = c13.C13One, c13.C13Uno, c13.C13Shape
    shapes = registry_shapes()
    out = []
    for hole_name, hole in (("class", lambda: B(x=5)), ("enum", lambda: E.SQUARE)):
        for depth in (1, 2, 3):
            for combo in itertools.product(range(len(shapes)), repeat=depth):
                if depth > 1 and 0 in combo:
                    continue
                try:
                    v = hole()
                    for i in reversed(combo):
                        v = shapes[i][1](v)
                    b = enc(v)
                except Exception:
                    continue   # e.g. unhashable in a set: not a value
                out.append((hole_name, " > ".join(shapes[i][0] for i in combo), b))
    return out


def registry_work(arg):
    k, n = arg
    A, B, E = c13.C13One, c13.C13Uno, c13.C13Shape
    viols = {}
    total = 0
    classes = core.Counter()
    base = {tid: cls for tid, cls in SerializableType.registry.items() if cls not in (B, E)}
    remap = dict(base)
    remap[B.type_id] = A                     # "what was stored as B is A nowadays"
    remap[E.type_id] = c13.C13Color
    for i, (hole_name, where, b) in enumerate(registry_cases()):
        if i % n != k:
            continue
        for rname, reg in (("whitelist without the foreign class", base), ("remapped ids", remap)):
            total += 1
            allowed = set(reg.values())
            cls, bad, calls = probe(b, fn=lambda d, reg=reg: Serializable.loadb(d, registry=reg))
            wit = {"family": "registry", "hole": hole_name, "where": where, "registry": rname, "hex": b.hex()}
            classes.inc("%s:%s" % (rname.split(" ")[0], cls))
            if bad:
                viols.setdefault((bad[0], bad[1]), [0, wit, bad[2]])[0] += 1
                continue
            if cls == "value":
                # re-run outside the meter to look at the value
                v = Serializable.loadb(b, registry=reg)
                try:
                    ok = type_tree_ok(v, 0, allowed)
                except RecursionError:
                    ok = True
                if not ok:
                    pos = where.split(" > ")[-1]
                    viols.setdefault(("type-tree", "decoding with a caller-supplied registry returned an instance of a class that registry does not contain (foreign id in a %s)" % pos),
                                     [0, wit, "%s, foreign %s at %s: %s" % (rname, hole_name, where, safe_repr(v))])[0] += 1
                elif rname.startswith("whitelist"):
                    viols.setdefault(("type-tree", "a type id that the registry in effect does not contain was decoded instead of refused"),
                                     [0, wit, "%s at %s decoded to %s" % (hole_name, where, safe_repr(v))])[0] += 1
    return total, dict(classes), viols, 0.0


def registry_work_init(tier):
    work_init(tier)


# ---------------------------------------------------------------------------
# family (v): a VALID client hello whose version field is a byte blob of every possible size, nested as the only
# element of a sequence / set / map that announces the maximum number of elements, followed by filler.  Whatever the
# hello decoder does with the stream position (it computes the padding length from the peer-controlled field sizes),
# the work stays bounded by the input.

def nested_hello_cases():
    from mpgameserver.connection import HandshakeClientHelloMessage, Packet, PacketHeader
    H = lambda x: struct.pack(">H", x)  # noqa
    i32 = lambda v: H(5) + struct.pack(">l", v)  # noqa
    hello = _HS["client_hello"]
    # type header (2) + der blob (serialized bytes value) ; find where the version value starts by re-encoding
    s0 = io.BytesIO()
    from mc import seams
    key = seams.fixture_keys()[1].getPublicKey().getBytes()
    serialize_value(s0, key)
    prefix = hello[:2] + s0.getvalue()
    assert hello.startswith(prefix), "hello layout changed"
    C = Packet.MAX_PAYLOAD_SIZE - 2 - PacketHeader.SIZE - 2
    out = []
    step = 1 if _TIER == "thorough" else 1
    for n in range(0, C + 40, step):
        ver = io.BytesIO()
        serialize_value(ver, b"v" * n)
        body = prefix + ver.getvalue()
        for cname, head in (("seq", H(16) + i32(2 ** 14)), ("set", H(18) + i32(2 ** 14)), ("map-key", H(17) + i32(2 ** 14))):
            if cname != "seq" and n % 16:
                continue
            out.append(("%s[16384] of a hello with a %d-byte version blob" % (cname, n), head + body + b"\x00" * 1500))
    return out


def nested_hello_work(arg):
    k, n = arg
    acc = {"counts": core.Counter(), "viols": {}}
    total = 0
    for i, (name, m) in enumerate(nested_hello_cases()):
        if i % n != k:
            continue
        total += 1
        cls, bad, calls = probe(m)
        fold(acc, "nested-hello:" + cls, bad, {"family": "nested-hello", "name": name})
    return total, dict(acc["counts"]), acc["viols"], 0.0


def nested_hello_work_init(tier):
    work_init(tier)


# ---------------------------------------------------------------------------
# family (vi): records of EVERY registered id.  The decoder instantiates the registered class for each occurrence of its type id,
# so whatever constructing that class costs is paid once per record, and the shortest record is 2..5 bytes.  The classes the
# library registers for its own bookkeeping are reachable this way as well as the message classes, so the family runs over the
# registry as it is (the library's classes and the harness's), never over a list of names.

def record_forms(tid, cls):
    """the shortest records of one registered id: [(form name, bytes)]"""
    H = lambda x: struct.pack(">H", x)  # noqa
    i8 = lambda v: H(3) + struct.pack(">b", v)  # noqa
    forms = [("id alone", H(tid)), ("field count 0", H(tid) + i8(0)), ("field count 1, null", H(tid) + i8(1) + H(15))]
    nf = len(getattr(cls, "_fields", ()) or ())
    if nf - 1 > 1:
        forms.append(("field count %d of %d, nulls" % (nf - 1, nf), H(tid) + (i8(nf - 1) if nf - 1 < 128 else H(5) + struct.pack(">l", nf - 1)) + H(15) * (nf - 1)))
    return forms


def _hello_prefix():
    """type id and key field of the honest client hello; the version field follows"""
    from mc import seams
    hello = _HS["client_hello"]
    prefix = hello[:2] + enc(seams.fixture_keys()[1].getPublicKey().getBytes())
    assert hello.startswith(prefix), "hello layout changed"
    return prefix


def record_counts(tier=None):
    from mpgameserver.serializable import MAX_ARRAY_LENGTH
    from mpgameserver.connection import Packet, PacketHeader
    # as many 5-byte records as one datagram of the size the server reads from its socket holds behind the key of a hello
    dgram = (Packet.RECV_SIZE - PacketHeader.SIZE - PacketHeader.CRC_SIZE - len(_hello_prefix()) - 8 - 16) // 5
    ns = [1, 16, dgram, 1024]
    if (tier or _TIER) == "thorough":
        ns += [MAX_ARRAY_LENGTH]
    return sorted(set(ns))


def record_cases():
    """[(name, bytes)]: every record form of every registered id, alone and n times in each container position"""
    H = lambda x: struct.pack(">H", x)  # noqa
    i32 = lambda v: H(5) + struct.pack(">l", v)  # noqa
    hello_prefix = _hello_prefix()
    out = []
    for tid in sorted(SerializableType.registry):
        cls = SerializableType.registry[tid]
        for fname, rec in record_forms(tid, cls):
            label = "%s (id %d) record, %s" % (cls.__name__, tid, fname)
            out.append((label + ", alone", rec))
            for n in record_counts():
                shapes = [("seq[%d]" % n, H(16) + i32(n) + rec * n),
                          ("set[%d]" % n, H(18) + i32(n) + rec * n),
                          ("map[%d] values" % n, H(17) + i32(n) + b"".join(i32(k) + rec for k in range(n))),
                          ("map[%d] keys" % n, H(17) + i32(n) + (rec + H(15)) * n)]
                if n >= 16:
                    shapes.append(("seq[4] of seq[%d]" % (n // 4), H(16) + i32(4) + (H(16) + i32(n // 4) + rec * (n // 4)) * 4))
                    shapes.append(("map[4] of seq[%d]" % (n // 4), H(17) + i32(4) + b"".join(i32(k) + H(16) + i32(n // 4) + rec * (n // 4) for k in range(4))))
                    # a client hello with a good key whose version field is the sequence (the decoder takes any value there)
                    shapes.append(("client hello with version = seq[%d]" % n, hello_prefix + H(16) + i32(n) + rec * n + b"\x00" * 16))
                if fname == "id alone" and n > 16 and _TIER == "quick":
                    # the next id is read as the field count: a recursion that ends at the recursion limit whatever the container
                    # is.  quick keeps the sequence and the hello, thorough every container
                    shapes = [sh for sh in shapes if sh[0].startswith("seq[%d]" % n) or sh[0].startswith("client hello")]
                for sname, m in shapes:
                    out.append(("%s, %s" % (label, sname), m))
    return out


def count_values(v):
    """number of values reachable from a decoded value, every object once"""
    seen = set()
    stack = [v]
    n = 0
    while stack:
        x = stack.pop()
        n += 1
        if isinstance(x, (list, tuple, set, frozenset, dict, Serializable)):
            if id(x) in seen:
                continue
            seen.add(id(x))
            if isinstance(x, dict):
                stack.extend(x.keys())
                stack.extend(x.values())
            elif isinstance(x, Serializable):
                stack.extend(getattr(x, f, None) for f in x._fields)
            else:
                stack.extend(x)
        elif isinstance(x, SerializableEnum):
            stack.append(x.value)
    return n


def record_probe(m, entry, name=""):
    """-> (outcome class, violation-or-None, calls, values per byte)"""
    cls, bad, calls, vpb = _record_probe(m, entry)
    if bad and name:
        bad = (bad[0], bad[1], "%s: %s%s" % (bad[2], name, "" if entry == "loadb" else ", handed to _recvClientHello"))
    return cls, bad, calls, vpb


def _record_probe(m, entry):
    if entry == "loadb":
        keep = []
        cls, bad, calls = probe(m, mem=True, mem_per_byte=REC_MEM_PER_BYTE, keep=keep)
        vpb = 0.0
        if not bad and keep:
            nv = count_values(keep[0])
            vpb = nv / (len(m) + 8.0)
            if nv > VALUES_PER_BYTE * len(m) + VALUES_BASE:
                cls, bad = "over-values", ("memory-bound", "decoder returned a value that holds more than %d*len+%d values" % (VALUES_PER_BYTE, VALUES_BASE),
                                           "%d values for %d input bytes" % (nv, len(m)))
        return cls, bad, calls, vpb
    cls, bad, calls = probe(m, fn=handshake_entry(entry), mem=True, mem_per_byte=REC_MEM_PER_BYTE)
    return cls, bad, calls, 0.0


def records_work(arg):
    k, n = arg
    acc = {"counts": core.Counter(), "viols": {}}
    total = 0
    maxratio = 0.0
    maxvpb = 0.0
    from mpgameserver.connection import Packet, PacketHeader
    room = Packet.RECV_SIZE - PacketHeader.SIZE - PacketHeader.CRC_SIZE
    for i, (name, m) in enumerate(record_cases()):
        if i % n != k:
            continue
        for entry in ("loadb", "client_hello"):
            if entry == "client_hello" and _TIER == "quick" and len(m) > room:
                continue    # quick: the hello entry gets what fits into one datagram; thorough: everything
            total += 1
            cls, bad, calls, vpb = record_probe(m, entry, name)
            if entry == "loadb":
                maxratio = max(maxratio, calls / (len(m) + 8.0))
            maxvpb = max(maxvpb, vpb)
            fold(acc, "records-%s:%s" % (entry, cls), bad, {"family": "records", "name": name, "entry": entry, "len": len(m)})
    bad = canary_check()
    if bad:
        acc["viols"].setdefault(("state-poisoning", bad[0]), [0, {"family": "canary", "after": ["records", k, n]}, bad[1]])[0] += 1
    return total, dict(acc["counts"]), acc["viols"], maxratio, maxvpb, record_counts(), len(SerializableType.registry)


def records_work_init(tier):
    work_init(tier)


def safe_repr(x):
    try:
        return repr(x)[:200]
    except Exception as e:  # e.g. the key classes' __repr__ needs a helper that newer cryptography lacks
        return "<%s: repr raised %s>" % (type(x).__name__, type(e).__name__)


def probe(data, fn=None, mem=False, mem_per_byte=None, keep=None):
    """run the decoder on data; returns (class, violation-or-None).  keep: a list that receives the decoded value"""
    fn = fn or Serializable.loadb
    mem_per_byte = MEM_PER_BYTE if mem_per_byte is None else mem_per_byte
    limit = CALLS_PER_BYTE * len(data) + CALLS_BASE
    meter = Meter(limit)
    peak = 0
    if mem:
        tracemalloc.start()
    global _IN_DECODE
    signal.setitimer(signal.ITIMER_VIRTUAL, WATCHDOG_S)  # backstop for loops that make no calls at all (CPU seconds)
    sys.setprofile(meter)
    try:
        try:
            _IN_DECODE = True
            try:
                v = fn(data)
            finally:
                _IN_DECODE = False
            out = ("value", v)
        except BudgetExceeded:
            out = ("aborted", None)
        except MemoryError as e:
            out = ("base-exception", e)
        except Exception as e:
            out = ("exception", e)
        except BaseException as e:  # SystemExit, KeyboardInterrupt, GeneratorExit ...
            out = ("base-exception", e)
    finally:
        sys.setprofile(None)
        signal.setitimer(signal.ITIMER_VIRTUAL, 0)
        if mem:
            peak = tracemalloc.get_traced_memory()[1]
            tracemalloc.stop()
    if meter.n > limit or out[0] == "aborted":
        return "over-budget", ("work-bound", "decoder executed more than %d*len+%d calls (or ran past the %.0f CPU-second watchdog)" % (CALLS_PER_BYTE, CALLS_BASE, WATCHDOG_S),
                               "aborted after %d calls for %d input bytes (limit %d)" % (meter.n, len(data), limit)), meter.n
    if mem and peak > mem_per_byte * len(data) + MEM_BASE:
        return "over-memory", ("memory-bound", "decoder allocated more than %d*len+%d bytes" % (mem_per_byte, MEM_BASE),
                               "peak %d bytes for %d input bytes" % (peak, len(data))), meter.n
    if keep is not None and out[0] == "value":
        keep.append(out[1])
    if out[0] == "base-exception":
        return "base-exception", ("exception-kind", "decoder raised a non-ordinary exception %s" % type(out[1]).__name__, safe_repr(out[1])), meter.n
    if out[0] == "value" and fn is Serializable.loadb:
        try:
            ok = type_tree_ok(out[1])
        except RecursionError:
            ok = True
        if not ok:
            return "bad-type", ("type-tree", "decoder returned an object of an unsupported/unregistered type", safe_repr(out[1])), meter.n
    return out[0] if out[0] == "value" else "exc:" + type(out[1]).__name__, None, meter.n


# ---------------------------------------------------------------------------
# corpora

def enc(v):
    s = io.BytesIO()
    serialize_value(s, v)
    return s.getvalue()


def handshake_corpus():
    """the three handshake messages, produced by the real classes with fixture keys"""
    from mc import seams
    from mpgameserver.connection import (HandshakeClientHelloMessage, HandshakeServerHelloMessage,
                                         HandshakeClientChallengeResponseMessage)
    keys = seams.fixture_keys()
    patches = seams.Patches()
    patches.set(seams.m_connection, "os", seams.OsProxy(seams.CounterRandom(7)))
    try:
        ch = HandshakeClientHelloMessage()
        ch.client_pubkey = keys[1].getPublicKey()
        ch.client_version = 1
        ch_b = ch.dumpb()
    finally:
        patches.undo()
    sh = HandshakeServerHelloMessage()
    sh.server_pubkey = keys[2].getPublicKey()
    sh.salt = b"S" * 16
    sh.token = 0x41234567
    sh_b = sh.dumpb(server_root_key=keys[0])
    cr = HandshakeClientChallengeResponseMessage()
    cr.token = 0x41234567
    cr_b = cr.dumpb()
    return {"client_hello": ch_b, "server_hello": sh_b, "challenge": cr_b}


def handshake_entry(kind):
    """the real receive function for that message on a fresh connection object"""
    from mc import seams
    from mpgameserver.connection import ServerClientConnection, ClientServerConnection
    from mpgameserver.context import ServerContext
    from mpgameserver.handler import EventHandler
    keys = seams.fixture_keys()
    ctxt = ServerContext(EventHandler(), keys[0])
    saved = seams.m_crypto.EllipticCurvePrivateKey.new

    def mk():
        seams.m_crypto.EllipticCurvePrivateKey.new = staticmethod(lambda: keys[3])
        try:
            if kind == "server_hello":
                c = ClientServerConnection(("1.1.1.1", 1))
                c.setServerPublicKey(keys[0].getPublicKey())
                return c._recvServerHello
            c = ServerClientConnection(ctxt, ("1.1.1.1", 1))
            ctxt.temp_connections[c.addr] = c
            return c._recvClientHello if kind == "client_hello" else c._recvChallengeResponse
        finally:
            seams.m_crypto.EllipticCurvePrivateKey.new = saved

    def call(data):
        return mk()(data)
    return call


def small_corpus():
    out = []
    seen = set()
    for v, label in c13.gen_values("quick", wide=False):
        try:
            b = enc(v)
        except Exception:
            continue
        if len(b) <= (36 if _TIER == "quick" else 64) and b not in seen:
            seen.add(b)
            out.append(b)
    return out


def mutations(b, every=1):
    for n in range(0, len(b)):
        yield b[:n]
    for i in range(0, len(b), every):
        for bit in range(8):
            yield b[:i] + bytes([b[i] ^ (1 << bit)]) + b[i + 1:]


def tokens():
    t = []
    for tid in range(1, 19):
        t.append(struct.pack(">H", tid))
    t.append(struct.pack(">H", c13.C13One.type_id))
    t.append(struct.pack(">H", c13.C13Three.type_id))
    t.append(struct.pack(">H", c13.C13Color.type_id))
    t.append(b"\x77\x77")
    for v in (-1, 0, 1, 2, 127):
        t.append(struct.pack(">b", v))
    for v in (2 ** 14, 2 ** 14 + 1, 2 ** 20, 2 ** 20 + 1, 2 ** 31 - 1, -2 ** 31):
        t.append(struct.pack(">l", v))
    t.append(b"zz")
    return t


def crafted():
    H = lambda x: struct.pack(">H", x)  # noqa
    i8 = lambda v: H(3) + struct.pack(">b", v)  # noqa
    i32 = lambda v: H(5) + struct.pack(">l", v)  # noqa
    i64 = lambda v: H(6) + struct.pack(">q", v)  # noqa
    out = []
    for depth in (10, 100, 400, 900, 1000, 1100, 2000, 3000):
        out.append(("nest-seq-%d" % depth, (H(16) + i8(1)) * depth + H(15)))
        out.append(("nest-map-%d" % depth, (H(17) + i8(1) + H(15)) * depth + H(15)))
        out.append(("nest-set-%d" % depth, (H(18) + i8(1)) * depth + H(15)))
        out.append(("nest-class-%d" % depth, (H(c13.C13One.type_id) + i8(1)) * depth + H(15)))
        out.append(("nest-mapkey-%d" % depth, (H(17) + i8(1)) * depth + H(15)))
    for depth in (5, 20, 100, 900):
        for tid, name in ((16, "seq"), (17, "map"), (18, "set")):
            out.append(("nest-%s-maxlen-%d" % (name, depth), (H(tid) + i32(2 ** 14)) * depth))
            out.append(("nest-%s-maxlen-%d-then-nulls" % (name, depth), (H(tid) + i32(2 ** 14)) * depth + H(15) * 64))
    lengths = [-1, -128, 0, 127]
    big = [2 ** 14, 2 ** 14 + 1, 2 ** 20, 2 ** 20 + 1, 2 ** 31 - 1, -2 ** 31]
    for tid, name in ((13, "str"), (14, "bytes"), (16, "seq"), (17, "map"), (18, "set")):
        for L in lengths:
            out.append(("%s-len%d" % (name, L), H(tid) + i8(L) + b"abc"))
        for L in big:
            out.append(("%s-len%d" % (name, L), H(tid) + i32(L) + b"abc"))
            out.append(("%s-len%d-nulls" % (name, L), H(tid) + i32(L) + H(15) * 40))
        out.append(("%s-len2**62" % name, H(tid) + i64(2 ** 62) + b"abc"))
        out.append(("%s-len-is-str" % name, H(tid) + H(13) + i8(1) + b"a" + b"abc"))
        out.append(("%s-len-is-float" % name, H(tid) + H(11) + struct.pack(">f", 3.0) + b"abc"))
        out.append(("%s-len-is-bool" % name, H(tid) + H(1) + b"\x01" + H(15) * 2))
        out.append(("%s-len-is-seq" % name, H(tid) + H(16) + i8(0) + b"abc"))
    out.append(("seq-max-nulls", H(16) + i32(2 ** 14) + H(15) * (2 ** 14)))
    out.append(("map-max-nulls", H(17) + i32(2 ** 14) + (H(15) + H(15)) * (2 ** 14)))
    out.append(("set-max-ints", H(18) + i32(2 ** 14) + b"".join(i32(i) for i in range(2 ** 14))))
    out.append(("str-max", H(13) + i32(2 ** 20) + b"a" * (2 ** 20)))
    for nf in (-1, 0, 2, 4, 2 ** 31 - 1):
        out.append(("class1-fields%d" % nf, H(c13.C13One.type_id) + (i8(nf) if abs(nf) < 128 else i32(nf)) + H(15) * 6))
        out.append(("class3-fields%d" % nf, H(c13.C13Three.type_id) + (i8(nf) if abs(nf) < 128 else i32(nf)) + H(15) * 6))
    for nf, enc_nf in ((300000, i32(300000)), (2 ** 31 - 1, i32(2 ** 31 - 1)), (2 ** 62, i64(2 ** 62))):
        # huge field count followed by well-formed values for all real fields, then end of input
        out.append(("class1-fields%d-all-real-fields-present" % nf, H(c13.C13One.type_id) + enc_nf + H(15)))
        out.append(("class3-fields%d-all-real-fields-present" % nf, H(c13.C13Three.type_id) + enc_nf + H(15) * 3))
        out.append(("class0-fields%d" % nf, H(c13.C13Empty.type_id) + enc_nf))
    out.append(("class-fields-is-str", H(c13.C13One.type_id) + H(13) + i8(1) + b"a"))
    out.append(("class-fields-is-seq", H(c13.C13One.type_id) + H(16) + i8(0)))
    out.append(("map-dup-keys", H(17) + i8(3) + (i8(1) + H(15)) * 3))
    out.append(("map-unhashable-key", H(17) + i8(1) + H(17) + i8(0) + H(15)))
    out.append(("set-unhashable", H(18) + i8(1) + H(18) + i8(0)))
    out.append(("enum-value-is-seq", H(c13.C13Color.type_id) + H(16) + i8(2) + H(15) * 2))
    out.append(("set-of-lists", H(18) + i8(2) + (H(16) + i8(1) + H(15)) * 2))
    for tid in (0, 2, 7, 19, 20, 127, 0x7777, 0xFFFF):
        out.append(("unknown-id-%d" % tid, H(tid) + b"\x00" * 8))
    # every registered class id followed by junk / truncated body
    for tid in sorted(SerializableType.registry):
        out.append(("registered-%d-empty" % tid, H(tid)))
        out.append(("registered-%d-zero" % tid, H(tid) + i8(0)))
        out.append(("registered-%d-nulls" % tid, H(tid) + i8(2) + H(15) * 4))
        out.append(("registered-%d-nested-self" % tid, (H(tid) + i8(1)) * 50 + H(15)))
    return out


# ---------------------------------------------------------------------------

_CANARY = []
_REG0 = {}


def canary_init():
    global _CANARY, _REG0
    _CANARY = []
    for v, label in itertools.islice(c13.gen_values("quick", wide=False), 0, 4000, 13):
        try:
            b = enc(v)
            _CANARY.append((b, c13.canon(c13.deserialize_value(io.BytesIO(b)))))
        except Exception:
            continue
    _REG0 = (dict(SerializableType.registry), dict(SerializableType.names))


def canary_check():
    if (dict(SerializableType.registry), dict(SerializableType.names)) != _REG0:
        r1, n1 = dict(SerializableType.registry), dict(SerializableType.names)
        diff = sorted(set(r1) ^ set(_REG0[0])) + sorted(set(n1) ^ set(_REG0[1]))
        return ("decoding hostile bytes changes the process-wide class registry", "ids/names added, removed or rebound: %r" % (diff[:6] or "rebound",))
    for b, want in _CANARY:
        try:
            got = c13.canon(c13.deserialize_value(io.BytesIO(b)))
        except Exception as e:
            return ("after decoding hostile bytes an honest encoding no longer decodes", "%s: %r" % (b[:24].hex(), e))
        if got != want:
            return ("after decoding hostile bytes an honest encoding decodes to a different value", "%s: %.80r, before: %.80r" % (b[:24].hex(), got, want))
    return None


def work_init(tier):
    global _TIER, _TOK, _SMALL, _HS, _CRAFT
    _TIER = tier
    _TOK = tokens()
    _SMALL = small_corpus()
    _HS = handshake_corpus()
    _CRAFT = crafted()
    sys.setrecursionlimit(1000)
    signal.signal(signal.SIGVTALRM, _alarm)
    canary_init()


def fold(acc, cls, bad, wit):
    acc["counts"].inc(cls)
    if bad:
        acc["viols"].setdefault((bad[0], bad[1]), [0, wit, bad[2]])[0] += 1


def work(arg):
    kind, k, n = arg
    acc = {"counts": core.Counter(), "viols": {}}
    total = 0
    maxratio = 0.0
    if kind == "small":
        for i, b in enumerate(_SMALL):
            if i % n != k:
                continue
            for m in mutations(b):
                total += 1
                cls, bad, calls = probe(m)
                maxratio = max(maxratio, calls / (len(m) + 8.0))
                fold(acc, cls, bad, {"family": "small", "hex": m.hex()})
    elif kind == "tokens":
        maxlen = 4 if _TIER == "quick" else 5
        first = _TOK[k::n]
        for t0 in first:
            for L in range(0, maxlen):
                for rest in itertools.product(_TOK, repeat=L):
                    m = t0 + b"".join(rest)
                    total += 1
                    cls, bad, calls = probe(m)
                    maxratio = max(maxratio, calls / (len(m) + 8.0))
                    fold(acc, cls, bad, {"family": "tokens", "hex": m.hex()})
    elif kind == "repeat":
        # a unit of one or two tokens repeated d times, then a terminal: every nesting shape whose cost could grow faster
        # than its length (a value decoded again per level, a rewind, a retry) shows at depth 12..40
        H = lambda x: struct.pack(">H", x)  # noqa
        terminals = [b"", H(15), H(3) + b"\x00", H(3) + b"\x01", H(13) + H(3) + b"\x00", H(16) + H(3) + b"\x00"]
        depths = (6, 12, 18, 28, 40) if _TIER == "quick" else (6, 12, 18, 28, 40, 80, 160)
        units = [t for t in _TOK] + [a + b for a in _TOK for b in _TOK]
        if _TIER == "thorough":
            heads = [t for t in _TOK if len(t) == 2]
            units += [a + b + c for a in heads for b in _TOK for c in _TOK]
        for i, u in enumerate(units):
            if i % n != k:
                continue
            for d in depths:
                for term in terminals:
                    m = u * d + term
                    total += 1
                    cls, bad, calls = probe(m)
                    maxratio = max(maxratio, calls / (len(m) + 8.0))
                    fold(acc, cls, bad, {"family": "repeat", "hex": m.hex()})
    elif kind == "handshake":
        for name, b in sorted(_HS.items()):
            entry = handshake_entry(name)
            hdr_part = 200 if name == "client_hello" else len(b)
            idx = 0
            cands = []
            for cut in list(range(0, min(len(b), hdr_part))) + list(range(hdr_part, len(b), 64)) + [len(b) - 1]:
                cands.append(b[:cut])
            for i in list(range(0, min(len(b), hdr_part))) + list(range(hdr_part, len(b), 97)):
                for bit in (0, 3, 7) if _TIER == "quick" else range(8):
                    cands.append(b[:i] + bytes([b[i] ^ (1 << bit)]) + b[i + 1:])
            if name == "client_hello":
                # every wrong padding length around the right one
                for d in list(range(-40, 0)) + list(range(1, 20)):
                    cands.append(b[:len(b) + d] if d < 0 else b + b"\x00" * d)
            for m in cands:
                idx += 1
                if idx % n != k:
                    continue
                total += 2
                cls, bad, calls = probe(m)
                fold(acc, "loadb:" + cls, bad, {"family": "handshake", "msg": name, "hex": m.hex()})
                cls, bad, calls = probe(m, fn=entry)
                fold(acc, "entry:" + cls, bad, {"family": "handshake-entry", "msg": name, "hex": m.hex()})
    elif kind == "crafted":
        for i, (name, m) in enumerate(_CRAFT):
            if i % n != k:
                continue
            total += 1
            cls, bad, calls = probe(m, mem=True)
            maxratio = max(maxratio, calls / (len(m) + 8.0))
            fold(acc, cls, bad, {"family": "crafted", "name": name})
            if _TIER == "thorough" or len(m) < 4096:
                # and through the three handshake entry points
                for hs in ("client_hello", "challenge", "server_hello"):
                    total += 1
                    cls, bad, calls = probe(m, fn=handshake_entry(hs))
                    fold(acc, "entry:" + cls, bad, {"family": "crafted-entry", "name": name, "msg": hs})
    if kind == "crafted" and k == 0:
        # the compressed entry point Serializable.loadz: a gzip member that inflates far beyond its size (a short message -
        # valid, refused at once, at the string limit - followed by a long compressible tail inside the same member), plus
        # truncations and bit flips of an honest dumpz().  The bound is on the COMPRESSED size, which is the input.
        import gzip as _gzip
        H = lambda x: struct.pack(">H", x)  # noqa
        heads = [("valid-seq", H(16) + H(3) + struct.pack(">b", 3) + (H(3) + b"\x01") * 3), ("unknown-id", H(0x7777)),
                 ("str-64k", H(13) + H(5) + struct.pack(">l", 2 ** 16) + b"a" * (2 ** 16)), ("empty", b"")]
        tails = (2 ** 20, 2 ** 24) if _TIER == "quick" else (2 ** 20, 2 ** 24, 96 * 2 ** 20)
        for hname, head in heads:
            for tail in tails:
                for fill in (b"\x00", b"\x00\x0f"):
                    z = _gzip.compress(head + fill * (tail // len(fill)), 9)
                    total += 1
                    cls, bad, calls = probe(z, fn=Serializable.loadz, mem=True)
                    fold(acc, "loadz:" + cls, bad, {"family": "loadz", "head": hname, "tail": tail, "fill": fill.hex()})
        honest = c13.C13Three(a=[1, "x"], b={"k": 2}, c=None).dumpz()
        for cut in range(0, len(honest)):
            total += 1
            cls, bad, calls = probe(honest[:cut], fn=Serializable.loadz, mem=True)
            fold(acc, "loadz:" + cls, bad, {"family": "loadz-truncated", "cut": cut})
        for i in range(len(honest)):
            for bit in (0, 5):
                total += 1
                cls, bad, calls = probe(honest[:i] + bytes([honest[i] ^ (1 << bit)]) + honest[i + 1:], fn=Serializable.loadz, mem=True)
                fold(acc, "loadz:" + cls, bad, {"family": "loadz-bitflip", "i": i, "bit": bit})
    # canary: whatever the hostile inputs of this work item did to the process (registries, caches, counters), honest encodings
    # still decode to what they decoded to before, and the class registry is what it was
    bad = canary_check()
    if bad:
        acc["viols"].setdefault(("state-poisoning", bad[0]), [0, {"family": "canary", "after": [kind, k, n]}, bad[1]])[0] += 1
    return total, dict(acc["counts"]), acc["viols"], maxratio


def _samples():
    work_init("quick")
    out = []
    toks = tokens()
    for combo in ((15, 4, 24), (16, 26, 12, 0), (18, 5, 27)):
        m = b"".join(toks[i] for i in combo)
        cls, bad, calls = probe(m)
        out.append({"family": "tokens", "hex": m.hex(), "outcome": cls, "calls": calls})
    for name, m in crafted()[:60:25]:
        cls, bad, calls = probe(m, mem=True)
        out.append({"family": "crafted", "name": name, "len": len(m), "outcome": cls, "calls": calls})
    b = handshake_corpus()["challenge"]
    cls, bad, calls = probe(b[:7])
    out.append({"family": "handshake", "msg": "challenge", "mutation": "truncate at 7", "outcome": cls})
    return out


def run(tier, seed):
    rep = core.Report()
    n = 32
    jobs = [(kind, (k + seed) % n, n) for kind in ("tokens", "small", "handshake", "crafted", "repeat") for k in range(n)]
    res = core.pmap("checks.c14", "work", jobs, initargs=(tier,))
    total = 0
    classes = core.Counter()
    acc = {}
    maxratio = 0.0
    res = list(res) + list(core.pmap("checks.c14", "registry_work", [(k, 16) for k in range(16)], initargs=(tier,)))
    res = res + list(core.pmap("checks.c14", "nested_hello_work", [(k, 16) for k in range(16)], initargs=(tier,)))
    rec_res = list(core.pmap("checks.c14", "records_work", [((k + seed) % 32, 32) for k in range(32)], initargs=(tier,)))
    rec_total = sum(r[0] for r in rec_res)
    rec_maxvpb = max([r[4] for r in rec_res] or [0.0])
    rec_maxratio = max([r[3] for r in rec_res] or [0.0])
    res = res + [r[:4] for r in rec_res]
    for t, counts, viols, mr in res:
        total += t
        maxratio = max(maxratio, mr)
        for k, v in counts.items():
            classes.inc(k, v)
        for key, (cnt, wit, msg) in viols.items():
            if key not in acc:
                acc[key] = [0, wit, msg]
            acc[key][0] += cnt
    for (oracle, sig), (cnt, wit, msg) in sorted(acc.items()):
        rep.add_violation(core.Violation(oracle, sig, wit, "%s [%d inputs]" % (msg, cnt)))
    rep.coverage = {
        "evaluations": total, "distinct_nontrivial": sum(v for k, v in classes.items() if k == "value" or k.endswith(":value")),
        "rule": "families: all truncations + bit flips of every C13 encoding <=36 (quick) / 64 (thorough) bytes; every token sequence of length <=%d over %d tokens; truncations/bit flips/padding edits of the three handshake messages "
                "through loadb and the real _recv* entry points; %d crafted inputs (nesting, extreme lengths, bad field counts) with a tracemalloc bound; registry in effect: a foreign class / enum id at every position of every container shape of depth <=3, decoded with a whitelist registry and with a remapping registry; a valid client hello with a version blob of every size 0..P+40 nested in a sequence / set / map announcing 16384 elements; records of every id in the class registry (id alone, field count 0 / 1 / one too few) alone and n times in a sequence / set / map values / map keys / nested sequences / the version field of a client hello, through loadb and _recvClientHello, with a tracemalloc bound and a bound on the values the result holds; Serializable.loadz on gzip members that inflate to 1 MiB / 16 MiB (thorough 96 MiB) behind a short message, and every truncation / two bit flips per byte of an honest dumpz(). non-trivial = inputs that decoded to a value (all others raised)" % (
                    4 if tier == "quick" else 5, len(tokens()), len(crafted())),
        "outcome_classes": dict(classes), "max_calls_per_byte_observed": round(maxratio, 2),
        "bounds": {"calls": "%d*len+%d" % (CALLS_PER_BYTE, CALLS_BASE), "memory(crafted only)": "%d*len+%d" % (MEM_PER_BYTE, MEM_BASE),
                   "memory(records)": "%d*len+%d" % (REC_MEM_PER_BYTE, MEM_BASE), "values(records)": "%d*len+%d" % (VALUES_PER_BYTE, VALUES_BASE)},
        "records": {"registered_ids": rec_res[0][6] if rec_res else 0, "repeat_counts": rec_res[0][5] if rec_res else [], "evaluations": rec_total,
                    "max_calls_per_byte_observed": round(rec_maxratio, 2), "max_values_per_byte_observed": round(rec_maxvpb, 2)},
        "exhaustive": True,
        "samples": core.safe_samples(_samples),
    }
    rep.assumptions = ["resource use measured in interpreter call events and tracemalloc peak, not wall time",
                       "RecursionError counts as an ordinary exception (it is an Exception subclass)"]
    return rep


def replay(witness):
    work_init("quick")
    if witness.get("family") == "records":
        for name, m in record_cases():
            if name == witness["name"]:
                cls, bad, calls, vpb = record_probe(m, witness["entry"], name)
                return [core.Violation(bad[0], bad[1], witness, bad[2])] if bad else []
        return []
    if witness.get("family") == "nested-hello":
        for name, m in nested_hello_cases():
            if name == witness["name"]:
                cls, bad, calls = probe(m)
                return [core.Violation(bad[0], bad[1], witness, bad[2])] if bad else []
        return []
    if witness.get("family") == "registry":
        out = []
        for k in range(16):
            t, c, viols, mr = registry_work((k, 16))
            out += [core.Violation(kk[0], kk[1], v[1], v[2]) for kk, v in viols.items() if v[1]["hex"] == witness["hex"] and v[1]["registry"] == witness["registry"]]
        return out
    if "hex" in witness and witness.get("family") in ("small", "tokens", "handshake", "repeat"):
        cls, bad, calls = probe(bytes.fromhex(witness["hex"]))
    elif witness.get("family") == "handshake-entry":
        cls, bad, calls = probe(bytes.fromhex(witness["hex"]), fn=handshake_entry(witness["msg"]))
    elif witness.get("family") in ("crafted", "crafted-entry"):
        m = dict(crafted())[witness["name"]]
        fn = handshake_entry(witness["msg"]) if "msg" in witness else None
        cls, bad, calls = probe(m, fn=fn, mem=True)
    else:
        return []
    return [core.Violation(bad[0], bad[1], witness, bad[2])] if bad else []
