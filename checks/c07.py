"""C07 - send callbacks are truthful and fire exactly once.

Engine A on the full stack, both directions.  One or two sends with
callbacks (retry NONE / BEST_EFFORT / RETRY_ON_TIMEOUT, single datagram and
fragmented) under <=2 deviations from: loss / duplication / delay by 2, 8
(> resend interval) and 70 (> timeout) ticks of ANY datagram of the window
(data and ack carrying), plus blackout and long-frame parameters.

Oracles
  true-before-delivery  cb(True) while the peer application has not been handed the message
  false-too-early       cb(False) earlier than outgoing_timeout after the send call
  exactly-once          at the end (connection open, nothing pending): NONE and RETRY sends have
                        exactly one callback (RETRY: True); BEST_EFFORT only needs >= 1
  datagram-accounting   at every tick: assembled == acked + timeouts + len(pending_acks)
"""
import struct

from mc import core, explore, lap
from mc.world import World, Monitor, open_datagram
from mc.pair import DeliveryMonitor, app_send, payload, quiescent, RETRY, add_bystander
from mpgameserver.connection import ConnectionStatus

PROPERTY = "C07"
LEVEL = "model_checking"

SIZES = {"small": 40, "empty": 0, "frag2": 1700, "frag3": 2600, "P": 1434, "frag40": 40 * 1024 + 100, "frag8": 8 * 1024 + 100, "frag20": 20 * 1024 + 100,
         # the last fragment is as large as a fragment may be (remainder = P-6), one byte more, and what would fit WITHOUT its header
         "fragEdge": 1024 + 1428, "fragEdge+1": 1024 + 1429, "fragEdgeP": 1024 + 1434, "fragEdge2": 2048 + 1431}
FATES = ["drop", "dup", "delay2", "delay8", "delay70"]
TIMEOUT = 1.0


class CallbackMonitor(DeliveryMonitor):
    def __init__(self):
        DeliveryMonitor.__init__(self, flag_delivery=False)
        self.sends = {}  # tag -> (sender, data, retry, time)
        self.carried = {}   # tag -> (id(conn), datagram seq, time handed to the socket)   [unretried single-datagram sends]
        self.ack_seen = {}  # tag -> time at which the sender ACCEPTED a peer datagram whose ack fields name that datagram

    def on_send(self, w, d):
        DeliveryMonitor.on_send(self, w, d)
        if d.src == "x" or len(d.data) < 20 or d.client_addr != w.clients[0].addr:
            return
        conn = w.server_conn(0) if d.src == "s" else w.clients[0].conn
        if conn is None:
            return
        seq = struct.unpack(">H", d.data[8:10])[0]
        for cb in conn.pending_callbacks.get(seq, []) or []:
            tag = getattr(cb, "tag", None)
            if tag is not None and tag not in self.carried:
                self.carried[tag] = (id(conn), seq, w.vt.now)

    def on_recv_result(self, w, conn, hdr, datagram, result, before):
        DeliveryMonitor.on_recv_result(self, w, conn, hdr, datagram, result, before)
        if result is False or result is None:
            return
        ack, bits = int(hdr.ack), int(hdr.ack_bits)
        for tag, (cid, seq, t) in self.carried.items():
            if cid != id(conn) or tag in self.ack_seen:
                continue
            diff = (ack - seq) % 65535   # both on the ring 1..65535
            if diff == 0 or (1 <= diff <= 32 and bits & (0x80000000 >> (diff - 1))):
                self.ack_seen[tag] = w.vt.now

    def on_callback(self, w, end, tag, success):
        DeliveryMonitor.on_callback(self, w, end, tag, success)
        sender, data, retry, t0, kind = self.sends[tag]
        recv = "s" if sender == "c" else "c"
        if success:
            if self.delivered[recv].get(data, 0) < 1:
                self.flag("true-before-delivery", "callback(True) but the peer application never got the message (%s, %s)" % (kind, retry),
                          "tag %s: True at t=%.4f, peer has not been handed the %d-byte message" % (tag, w.vt.now, len(data)))
        else:
            if retry == "none" and tag in self.ack_seen and tag in self.carried and self.ack_seen[tag] - self.carried[tag][2] < TIMEOUT - 1e-9:
                self.flag("false-despite-ack", "callback(False) although the sender accepted a peer datagram acknowledging it before the timeout (%s, %s)" % (kind, retry),
                          "tag %s: datagram seq %d sent at %.4f, acknowledged by an accepted datagram at %.4f, callback(False) at %.4f" % (
                              tag, self.carried[tag][1], self.carried[tag][2], self.ack_seen[tag], w.vt.now))
            if w.vt.now - t0 < TIMEOUT - 1e-9:
                self.flag("false-too-early", "callback(False) before the message timeout elapsed (%s, %s)" % (kind, retry),
                          "tag %s: False %.4f s after send (timeout %.1f)" % (tag, w.vt.now - t0, TIMEOUT))

    def on_tick_end(self, w):
        for name, c in (("client", w.clients[0].conn), ("server", w.server_conn(0))):
            if c is None:
                continue
            st = c.stats
            if st.assembled != st.acked + st.timeouts + len(c.pending_acks):
                self.flag("datagram-accounting", "%s: assembled != acked + timeouts + pending" % name,
                          "%s assembled=%d acked=%d timeouts=%d pending=%d" % (name, st.assembled, st.acked, st.timeouts, len(c.pending_acks)))


class AckReorder(Monitor):
    """a deterministic reordering of ack-carrying datagrams: the first datagram the PEER emits at or after tick t1 (P1)
    is held back by D ticks, everything the peer emits during the following G ticks is lost, so the first datagram to
    get through afterwards (P2) overtakes P1 and its 32-datagram ack window no longer reaches what P1 acknowledges"""

    def __init__(self, peer_src, direction, t1, G, D):
        Monitor.__init__(self)
        self.peer_src, self.direction, self.t1, self.G, self.D = peer_src, direction, t1, G, D
        self.t0 = None
        self.p1 = None
        self.applied = False

    def on_send(self, w, d):
        if self.t0 is None or self.p1 is not None:
            return
        src = d.src if d.src == "s" else "c"
        if src == self.peer_src and w.tickno - self.t0 >= self.t1:
            self.p1 = d

    def on_tick_end(self, w):
        if self.p1 is not None and not self.applied:
            self.applied = True
            if self.p1 in w.net:
                self.p1.release_tick += self.D
                self.p1.note = "held back %d ticks" % self.D
            w.start_blackout(self.direction, self.G)


def scenario(params, ch):
    direction, msgs, blackout, longframe, order, latency = params
    # options ride on the order field: "cs|dt60" (60 Hz frames), "cs|ka0.5" (keep-alive = resend delay 0.5 s on both
    # ends), "cs|bidi" (the peer sends with callbacks at the same time)
    opts = order.split("|")[1:]
    order = order.split("|")[0]
    mon = CallbackMonitor()
    dt = msgs[0][3] if msgs and msgs[0][0] == "stream" else (1.0 / 60 if "dt60" in opts else 1.0 / 64)
    ka = next((float(o[2:]) for o in opts if o.startswith("ka")), None)
    monitors = [mon]
    reorder = None
    for o in opts:
        if o.startswith("ackre"):
            t1, G, D = (int(x) for x in o[5:].split(":"))
            reorder = AckReorder("s" if direction == "c2s" else "c", "s2c" if direction == "c2s" else "c2s", t1, G, D)
            monitors.append(reorder)
    w = World(n_clients=(2 if "by" in opts else 1), order=order, latency=latency, chooser=ch, monitors=monitors, dt=dt,
              server_cfg=({"setKeepAliveInterval": ka} if ka else None), client_cfg=({"setKeepAliveInterval": ka} if ka else None))
    sender = direction[0]
    try:
        w.run_until_connected()
        w.run(2)
        if "wrap" in opts:
            w.run(4)
            w.preset_near_wrap()
        if "by" in opts:
            add_bystander(w, mon)     # a second client of the same server exchanging traffic of every kind, perfect link
            w.run(3)
        w.fates = FATES if "sf" not in opts else ["sendfail", "drop"]
        if "cbraise" in opts:
            # the application's callback of the FIRST message raises when it is told False / whenever it is called
            w.cb_raise["m0"] = False
        if "cbraiseall" in opts:
            w.cb_raise["m0"] = "always"
        for o in opts:
            if o.startswith("fragloss"):
                # content-selective loss: every datagram of the sender that carries fragment number k of a fragmented
                # message is lost, copies included, for the whole run (the other fragments and everything else get through)
                k_lost = int(o[8:])
                src_lost = "s" if sender == "s" else "c0"

                def rule(w_, d, k_lost=k_lost, src_lost=src_lost):
                    if d.src != src_lost:
                        return False
                    for seq, t, pl in (open_datagram(w_, d) or []):
                        if t == 7 and len(pl) >= 6 and struct.unpack(">HHH", pl[:6])[1] == k_lost:
                            return True
                    return False
                w.drop_rule = rule
        if "cbsend" in opts or "cbsendF" in opts:
            # the application sends from INSIDE its callbacks: m0's callback queues r1 (guaranteed; fragmented with
            # cbsendF), r1's callback queues r2 (unretried) - they are sends like any other
            chain = [0]

            def resend(success):
                if chain[0] >= 2:
                    return
                chain[0] += 1
                tag = "r%d" % chain[0]
                rt = "retry" if chain[0] == 1 else "none"
                size = SIZES["frag2"] if ("cbsendF" in opts and chain[0] == 1) else 33
                data = payload(50 + chain[0], size)
                mon.sends[tag] = (sender, data, rt, w.vt.now, "fragmented" if size > 1434 else "single")
                w.cb_action[tag] = resend
                e = app_send(w, mon, sender, data, rt, tag=tag)
                if e is not None:
                    ch.flag("send-raises", "send from inside a callback raised %s" % type(e).__name__, repr(e))
            w.cb_action["m0"] = resend
        if "bidi" in opts:
            other = "s" if sender == "c" else "c"
            for j, (size, retry) in enumerate((("small", "retry"), ("small", "none"))):
                tag = "o%d" % j
                data = payload(20 + j, SIZES[size])
                mon.sends[tag] = (other, data, retry, w.vt.now, "single")
                app_send(w, mon, other, data, retry, tag=tag)
        if msgs and msgs[0][0] == "stream":
            # a stream: one unretried message per tick, so that > 32 datagrams are outstanding
            # while the acks are held back by the blackout parameter
            _, n, retry, _dt = msgs[0]
            if blackout:
                w.start_blackout(blackout[0], blackout[2])
                blackout = None
            w.fates = ["drop", "delay8"] if reorder is None else []
            if reorder is not None:
                reorder.t0 = w.tickno
            for i in range(n):
                tag = "m%d" % i
                data = payload(i + 1, 24)
                mon.sends[tag] = (sender, data, retry, w.vt.now, "single")
                app_send(w, mon, sender, data, retry, tag=tag)
                if i == n - 4:
                    w.fates = []
                w.run(1)
            msgs = ()
        # messages may carry a third element: the tick (relative to the first send) at which they are queued -
        # e.g. exactly when the 0.1 s resend of an earlier retry-mode message is due
        later = {}
        for i, m in enumerate(msgs):
            size, retry = m[0], m[1]
            at = m[2] if len(m) > 2 else 0

            def do_send(i=i, size=size, retry=retry):
                tag = "m%d" % i
                data = payload(i + 1, SIZES[size])
                mon.sends[tag] = (sender, data, retry, w.vt.now, "fragmented" if SIZES[size] > 1434 else "single")
                e = app_send(w, mon, sender, data, retry, tag=tag)
                if e is not None:
                    ch.flag("send-raises", "send raised %s" % type(e).__name__, repr(e))
            if at == 0:
                do_send()
            else:
                later.setdefault(at, []).append(do_send)
        if "overtake" in opts:
            # the datagram with the measured messages goes out (its fate is a choice: delayed, lost and resent ...), then
            # 300 tiny messages (two datagrams) overtake it: it arrives more than a message window (256) late while
            # its datagram is still well inside the 32-datagram window
            w.tick()
            for j in range(300):
                app_send(w, mon, sender, b"f" + struct.pack(">H", j), "none")
        tick0 = w.tickno

        def run_window(n):
            for _ in range(n):
                for f in later.pop(w.tickno - tick0, []):
                    f()
                w.tick()
        if blackout:
            bdir, start, ticks = blackout
            run_window(start)
            w.start_blackout(bdir, ticks)
        run_window(4)
        if longframe:
            # the owner stalls: timeout and ack compete in one update
            w.tick(dt=longframe)
        run_window(4 + (max(later) if later else 0))
        w.fates = []
        # settle: all retries, timeouts (1 s) and late deliveries (70 ticks) done
        k = (1.0 / 64) / w.dt
        w.run(int(160 * k))
        w.run(int(200 * k), quiescent)
        w.run(int(70 * k) + 1)  # > timeout: every datagram resolved
        ch.steps = w.tickno
        c_ok = w.clients[0].conn is not None and w.clients[0].conn.status == ConnectionStatus.CONNECTED
        s_ok = w.server_conn(0) is not None and w.server_conn(0).status == ConnectionStatus.CONNECTED
        outcome = []
        for tag, (snd, data, retry, t0, kind) in sorted(mon.sends.items()):
            cbs = [s for s, _ in mon.callbacks.get(tag, [])]
            outcome.append((tag, tuple(cbs)))
            if not (c_ok and s_ok):
                continue
            if retry == "none" and len(cbs) != 1:
                ch.flag("exactly-once", "unretried %s send: callback fired %d times" % (kind, len(cbs)),
                        "tag %s callbacks=%r" % (tag, mon.callbacks.get(tag)))
            if retry == "retry" and cbs != [True]:
                ch.flag("exactly-once", "guaranteed %s send: callbacks %s" % (kind, cbs if len(cbs) < 4 else "%d calls" % len(cbs)),
                        "tag %s callbacks=%r" % (tag, mon.callbacks.get(tag)))
            if retry == "best" and len(cbs) < 1:
                ch.flag("exactly-once", "best-effort %s send: callback never fired" % kind, "tag %s" % tag)
        for name, c in (("client", w.clients[0].conn), ("server", w.server_conn(0))):
            if c is not None and c.status == ConnectionStatus.CONNECTED:
                old = [k for k, t in c.pending_acks.items() if w.vt.now - t > TIMEOUT + 2 * w.dt + 1e-9]
                if old:
                    ch.flag("datagram-accounting", "%s: datagram neither acked nor timed out after the timeout" % name,
                            "%s pending_acks older than timeout: %r" % (name, old[:5]))
        ch.outcome = (tuple(outcome), c_ok, s_ok)
        if w.exceptions:
            ch.flag("exception", "exception in %s" % w.exceptions[0][0], repr(w.exceptions[:2]))
    finally:
        for v in mon.violations:
            ch.flag(*v)
        w.close()


def params_list(tier):
    out = []
    if tier == "quick":
        msg_sets = [(("small", "none"),), (("small", "retry"),), (("small", "best"),), (("frag2", "none"),), (("frag2", "retry"),),
                    (("small", "retry"), ("small", "none")), (("small", "none"), ("empty", "retry")), (("small", "retry"), ("empty", "none"))]
        cfgs = [("cs", 1)]
        blackouts = [None, ("ack", 0, 13), ("data", 0, 70)]
        longframes = [0]
    else:
        msg_sets = [(("small", "none"),), (("small", "retry"),), (("small", "best"),), (("frag2", "none"),), (("frag2", "retry"),),
                    (("frag2", "best"),), (("frag3", "retry"),), (("P", "retry"),), (("empty", "none"),),
                    (("small", "retry"), ("small", "none")), (("frag2", "retry"), ("small", "retry")),
                    (("small", "none"), ("empty", "retry")), (("small", "retry"), ("empty", "none")), (("empty", "best"), ("empty", "retry"), ("empty", "none"))]
        cfgs = [("cs", 1), ("sc", 0), ("sc", 1), ("cs", 0)]
        blackouts = [None, ("ack", 0, 13), ("data", 0, 70), ("ack", 2, 100), ("both", 1, 30)]
        longframes = [0, 0.25, 1.2]
    for direction in ("c2s", "s2c"):
        # round trips longer than the resend interval (one-way 8 ticks = 0.125 s, 20 ticks = 0.31 s), no other fault needed
        for msgs in ((("small", "retry"),), (("small", "best"),), (("small", "none"),), (("frag2", "retry"),),
                     (("small", "retry"), ("small", "none", 7)), (("small", "best"), ("small", "retry", 6), ("small", "none", 8)),
                     (("frag2", "best"), ("small", "none", 7))):
            # one-way 8 / 20 / 28 ticks: RTT 0.25 / 0.62 / 0.88 s - above the resend interval, below the message timeout.
            # (RTT >= outgoing_timeout is outside the statement: every ack then arrives 'after the timeout elapsed'.)
            for lat in ((8,) if tier == "quick" else (8, 20, 28)):
                out.append((direction, msgs, None, 0, "cs", lat))
        # 60 Hz frames (frame == send_interval: borderline float comparisons), a long keep-alive/resend interval, and
        # both ends sending with callbacks at once
        for o in (("cs|dt60", "cs|ka0.5", "cs|bidi") if tier == "quick" else ("cs|dt60", "sc|dt60", "cs|ka0.5", "cs|ka1.0", "cs|bidi", "sc|bidi|dt60")):
            for msgs in ((("small", "retry"), ("small", "none")), (("frag2", "retry"),), (("small", "best"),)):
                out.append((direction, msgs, None, 0, o, 1))
                if tier == "thorough" or msgs[0][1] == "retry":
                    out.append((direction, msgs, ("s2c" if direction == "c2s" else "c2s", 0, 13), 0, o, 1))
        # the owner stalls for longer than the message timeout right after the transmission
        if tier == "quick":
            for msgs in ((("small", "retry"),), (("frag2", "retry"),), (("small", "none"), ("small", "best"))):
                out.append((direction, msgs, None, 1.2, "cs", 1))
        # a user callback that raises must not take the callbacks (or the retransmission) of its datagram-mates with it
        data_dir0 = "c2s" if direction == "c2s" else "s2c"
        for o in ("cs|cbraise", "cs|cbraiseall"):
            for msgs in ((("small", "none"), ("small", "none")), (("small", "best"), ("small", "retry")), (("small", "none"), ("frag2", "retry")), (("small", "retry"), ("small", "none"))):
                for b in (None, (data_dir0, 0, 70), ("both", 0, 100)):
                    if tier == "quick" and o == "cs|cbraiseall" and b is not None and b[0] != "both":
                        continue
                    out.append((direction, msgs, b, 0, o, 1))
        # fragmented sends whose copies travel in several datagrams (round trip above the resend interval): one fragment is
        # lost every time while the copies of the others are acked more than once; and messages with more fragments than
        # one round trip carries, no loss at all
        for lat in ((8,) if tier == "quick" else (8, 20)):
            for retry in ("best", "none"):
                for o in ("cs|fragloss1", "cs|fragloss2"):
                    out.append((direction, (("frag2", retry),), None, 0, o, lat))
                out.append((direction, (("frag3", retry),), None, 0, "cs|fragloss2", lat))
            for size in ("frag8", "frag20"):
                for retry in (("best",) if tier == "quick" else ("best", "retry", "none")):
                    out.append((direction, ((size, retry),), None, 0, "cs", lat))
        # the application sends again from inside its callbacks (told True after an ack, told False after a timeout)
        for o in ("cs|cbsend", "cs|cbsendF"):
            for msgs in ((("small", "none"),), (("small", "retry"),), (("frag2", "none"),), (("small", "none"), ("small", "retry"))):
                for b in (None, (data_dir0, 0, 70)):
                    if tier == "quick" and o == "cs|cbsendF" and len(msgs) > 1:
                        continue
                    out.append((direction, msgs, b, 0, o, 1))
        # every counter a few numbers below the 16-bit wrap
        for msgs in ((("small", "retry"), ("small", "none")), (("frag2", "retry"),), (("small", "best"),), (("frag2", "none"),)):
            out.append((direction, msgs, None, 0, "cs|wrap", 1))
            out.append((direction, msgs, ("s2c" if direction == "c2s" else "c2s", 0, 70), 0, "cs|wrap", 1))
        # the client's socket refuses one send (sendto raises inside update()): every callback still fires once, truthfully
        if direction == "c2s":
            for msgs in ((("small", "none"),), (("small", "retry"), ("small", "none")), (("small", "best"),), (("frag2", "retry"),), (("frag2", "none"),)):
                out.append((direction, msgs, None, 0, "cs|sf", 1))
        # fragmented messages whose last fragment sits at the capacity boundary
        for size in ("fragEdge", "fragEdge+1", "fragEdgeP", "fragEdge2"):
            for retry in (("none", "retry") if tier == "quick" else ("none", "retry", "best")):
                out.append((direction, ((size, retry),), None, 0, "cs", 1))
        # a second client of the same server exchanges traffic of every kind all the time
        for msgs in ((("small", "none"),), (("small", "retry"), ("small", "none")), (("frag2", "retry"),), (("small", "best"),)):
            out.append((direction, msgs, None, 0, "cs|by", 1))
            out.append((direction, msgs, ("s2c" if direction == "c2s" else "c2s", 0, 13), 0, "cs|by", 1))
        # overtaken by more than a message window of newer messages
        for msgs in ((("small", "none"),), (("small", "retry"),), (("small", "best"),), (("small", "retry"), ("small", "none")), (("frag2", "retry"),)):
            out.append((direction, msgs, None, 0, "cs|overtake", 1))
        # a second message queued exactly when the resend of the first is due, acks late
        for at in ((7,) if tier == "quick" else (6, 7, 8, 13)):
            ack_dir0 = "s2c" if direction == "c2s" else "c2s"
            out.append((direction, (("small", "retry"), ("small", "none", at)), (ack_dir0, 0, 13), 0, "cs", 1))
            out.append((direction, (("small", "best"), ("small", "retry", at)), (ack_dir0, 0, 13), 0, "cs", 1))
    for direction in ("c2s", "s2c"):
        data_dir, ack_dir = (("c2s", "s2c") if direction == "c2s" else ("s2c", "c2s"))
        # frame 1/50 s > send_interval: one datagram per tick, 45 outstanding within 0.9 s < timeout
        for n, bl in ((45, 38), (45, 0), (48, 44)) if tier == "thorough" else ((45, 38),):
            out.append((direction, (("stream", n, "none", 0.02),), (ack_dir, 0, bl) if bl else None, 0, "cs", 1))
        # the same stream across the wrap of the datagram numbers (the preset leaves them at 65530), acks flowing
        out.append((direction, (("stream", 16, "none", 0.02),), None, 0, "cs|wrap", 1))
        for msgs in msg_sets:
            for b in blackouts:
                if b is not None:
                    b = ({"ack": ack_dir, "data": data_dir, "both": "both"}[b[0]], b[1], b[2])
                for lf in longframes:
                    for order, latency in cfgs:
                        if b is not None and lf:
                            continue
                        out.append((direction, msgs, b, lf, order, latency))
    return out


class _Recorder(object):
    def __init__(self):
        self.calls = []

    def on_sent(self, success):
        self.calls.append(bool(success))


def shared_cb_scenario(params, ch):
    """several sends in ONE frame that use the same callback - the same function object, or bound methods of one object
    (fresh but equal objects): the callback fires once PER SEND"""
    direction, n, retry, kind, blackout = params
    mon = DeliveryMonitor(flag_delivery=False)
    w = World(chooser=ch, monitors=[mon])
    sender = direction[0]
    try:
        w.run_until_connected()
        w.run(2)
        rec = _Recorder()
        fn_calls = []

        def plain(success):
            fn_calls.append(bool(success))
        w.fates = ["drop", "delay8"]
        datas = []
        for i in range(n):
            data = payload(i + 1, 20 + i)
            datas.append(data)
            mon.note_sent(sender, data)
            cb = plain if kind == "function" else rec.on_sent      # rec.on_sent: a new, equal bound-method object each time
            if sender == "c":
                w.clients[0].client.send(data, retry=RETRY[retry].value, callback=cb)
            else:
                w.server_conn(0).send(data, retry=RETRY[retry], callback=cb)
        if blackout:
            w.start_blackout("c2s" if sender == "c" else "s2c", blackout)
        w.run(6)
        w.fates = []
        w.run(160)
        w.run(200, quiescent)
        w.run(71)
        ch.steps = w.tickno
        calls = fn_calls if kind == "function" else rec.calls
        c_ok = w.clients[0].conn is not None and w.clients[0].conn.status == ConnectionStatus.CONNECTED
        s_ok = w.server_conn(0) is not None and w.server_conn(0).status == ConnectionStatus.CONNECTED
        ch.outcome = (tuple(calls), c_ok, s_ok)
        if c_ok and s_ok:
            if retry == "none" and len(calls) != n:
                ch.flag("exactly-once", "sends that share one callback (%s): the callback did not fire once per send" % ("the same function object" if kind == "function" else "equal bound methods"),
                        "%d unretried sends in one frame, callback calls %r" % (n, calls))
            if retry == "retry" and calls != [True] * n:
                ch.flag("exactly-once", "guaranteed sends that share one callback: not exactly one True per send", "%d sends, calls %r" % (n, calls))
            recv = "s" if sender == "c" else "c"
            if w.fault_free and retry == "none" and calls.count(True) != sum(1 for d in datas if mon.delivered[recv].get(d, 0) >= 1):
                ch.flag("true-before-delivery", "shared callback: number of True results differs from the number of delivered messages", "calls %r" % calls)
    finally:
        w.close()


def params_list_bound1(tier):
    """configurations explored with <= 1 deviation: the timeout of one fragment competes with the acks of the others"""
    out = []
    for direction in ("c2s", "s2c"):
        ack_dir = "s2c" if direction == "c2s" else "c2s"
        # a message so long that its first fragments time out while the last ones are still being sent and acked
        out.append((direction, (("frag40", "none"),), None, 0, "cs", 1))
        if tier == "thorough":
            out.append((direction, (("frag40", "retry"),), None, 0, "cs", 1))
            out.append((direction, (("frag40", "best"),), None, 0, "sc", 0))
        # ack-carrying datagrams reordered across a gap wider than the 32-datagram ack window (one datagram per tick at
        # 1/50 s frames; message timeout = 50 ticks)
        for t1, G, D in (((4, 34, 40), (6, 36, 41), (3, 33, 44)) if tier == "quick" else
                         tuple((t1, G, G + x) for t1 in (2, 3, 4, 5, 6, 8) for G in (33, 34, 36, 40) for x in (3, 6, 10))):
            out.append((direction, (("stream", 45, "none", 0.02),), None, 0, "cs|ackre%d:%d:%d" % (t1, G, D), 1))
        # acks held back for about one message timeout: every blackout length around it, so that for some length the
        # first ack arrives after the first fragment's timeout and before the last fragment's
        for L in (range(56, 72) if tier == "quick" else range(50, 80)):
            out.append((direction, (("frag3", "none"),), (ack_dir, 0, L), 0, "cs", 1))
            if tier == "thorough":
                out.append((direction, (("frag2", "none"), ("small", "none")), (ack_dir, 0, L), 0, "sc", 0))
    return out


def run(tier, seed):
    rep = core.Report()
    laps = lap.start(tier)
    plist = params_list(tier)
    if seed:
        k = seed % len(plist)
        plist = plist[k:] + plist[:k]
    bound = 2
    st = explore.explore_all("checks.c07", "scenario", plist, bound, time_budget=(1000 if tier == "quick" else 4800))
    sh = [(d, n, r, k, b) for d in ("c2s", "s2c") for n in (2, 3) for r in ("none", "retry", "best") for k in ("function", "bound-method") for b in (0, 70)
          if tier == "thorough" or (n == 3 or r == "none")]
    st_sh = explore.explore_all("checks.c07", "shared_cb_scenario", sh, 1, time_budget=900)
    plist1 = params_list_bound1(tier)
    st1 = explore.explore_all("checks.c07", "scenario", plist1, 1, time_budget=(900 if tier == "quick" else 1800))
    st.violations.extend(st1.violations)
    st.violations.extend(st_sh.violations)
    b1 = {"configurations": len(plist1), "executions": st1.executions, "by_deviations": st1.by_cost, "capped_by_time_budget": st1.capped, "distinct_outcomes": len(st1.outcomes)}
    b3 = None
    if tier == "thorough":
        sub = [p for p in plist if p[1][0][0] != "stream" and len(p[1]) == 1 and p[2] is None and p[3] == 0 and p[4] == "cs" and p[5] == 1][:8]
        st3 = explore.explore_all("checks.c07", "scenario", sub, 3, time_budget=420)
        st.violations.extend(st3.violations)
        b3 = {"configurations": len(sub), "executions": st3.executions, "by_deviations": st3.by_cost, "capped_by_time_budget": st3.capped}
    for v in st.violations:
        rep.add_violation(core.Violation(v["oracle"], v["sig"], {"params": v["params"], "choices": v["choices"], "labels": v["labels"]},
                                         "%s | params=%r deviations=%r" % (v["message"], v["params"], v["labels"])))
    lap_v, lap_cov = lap.collect(laps, PROPERTY)
    for v in lap_v:
        rep.add_violation(v)
    rep.coverage = {
        "long_session_part": lap_cov,
        "states": st.points, "transitions": st.steps, "traces_validated_against_impl": st.executions,
        "executions": st.executions, "executions_by_deviation_count": st.by_cost, "configurations": len(plist),
        "max_deviations_completed": bound if not st.capped else "capped",
        "distinct_outcomes": len(st.outcomes), "evaluations": st.executions, "distinct_nontrivial": len(st.outcomes),
        "rule": "states = execution-tree nodes; transitions = virtual ticks on the real stack; outcomes = per-send callback value sequences + connection states",
        "exhaustive": not st.capped and not st1.capped, "samples": st.samples[:4], "bound3_part": b3, "bound1_part": b1, "shared_callback_part": {"configurations": len(sh), "executions": st_sh.executions, "distinct_outcomes": len(st_sh.outcomes)},
    }
    rep.assumptions = ["'accepted by the peer' is observed as 'handed to the peer application' (the harness drains deliveries in the same turn as the receive)",
                       "cb(False) timing is measured from the send() call, a lower bound of the datagram send time",
                       "<=%d deviations; message timeout 1.0 s; tick 1/64 s" % bound]
    return rep


def replay(witness):
    if "lap" in witness:
        return lap.replay(witness, PROPERTY)
    ch = explore.replay_choices(scenario, _tup(witness["params"]), witness["choices"])
    return [core.Violation(o, s, witness, m) for o, s, m in ch.found]


def _tup(x):
    if isinstance(x, list):
        return tuple(_tup(i) for i in x)
    return x
