"""C11 - hostile datagrams cannot stop the server, hurt other clients or be amplified.

Engine A, fault-family form (like C01): the real stack with one honest client
in an echo conversation; an attacker with four kinds of source address (fresh,
one that sits in the temp pool, the honest client's own address (spoofed), a
block-listed one) injects every element of a STRUCTURED datagram family
through TwistedServer.datagramReceived + one iteration of the real server
loop.  Also: pairs of datagrams, a mass scenario (2000 hellos from 2000
addresses during the echo conversation), block lists {none, attacker, honest},
MTU 512 and 1500, and the plain-UDP entry point _UdpServer.run driven over a
fake socket module.

Oracles after EVERY injection
  alive        the server thread is alive and the loop iterates
  honest       the honest client's server-side connection is unchanged (full snapshot; only its
               dropped counter may grow for spoofed datagrams) and, periodically, an echo round
               trip still completes within the normal bound
  blocklist    a datagram from a block-listed IP leaves no queue entry, no pool entry, no handler
               event and triggers no byte sent
  amplification for every address that is not in the connected pool: cumulative bytes sent to it
               <= cumulative bytes received from it, at every instant
"""
import binascii
import io
import itertools
import random
import struct

from mc import core, seams
from mc.world import World, Monitor, snapshot, diff_snap

core.import_repo()
from mpgameserver.connection import (Packet, PacketType, HandshakeClientHelloMessage, ConnectionStatus, RetryMode)  # noqa
from mpgameserver.serializable import serialize_value  # noqa

PROPERTY = "C11"
LEVEL = "model_checking"

TO_SERVER, TO_CLIENT = b"FSOS", b"FSOC"
FRESH = ("10.66.0.1", 1001)
TEMP = ("10.66.0.2", 1002)
BLOCKED = ("10.66.0.3", 1003)


def hdr(magic, typ, length, count, seq=1, ack=0, bits=0, ctime=1000):
    return struct.pack(">4sLHHBHBL", magic, ctime, seq, ack, typ & 0xFF, length & 0xFFFF, count & 0xFF, bits)


def crc(d, ok=True):
    c = binascii.crc32(d) & 0xFFFFFFFF
    return d + struct.pack(">L", c if ok else c ^ 0x5A5A)


def hello_body(key_index=15, version=1, pad_delta=0, corrupt_der=False):
    keys = seams.fixture_keys()
    s = io.BytesIO()
    der = keys[key_index].getPublicKey().getBytes()
    if corrupt_der:
        der = der[:20] + bytes([der[20] ^ 0xFF]) + der[21:]
    serialize_value(s, der)
    serialize_value(s, version)
    body = struct.pack(">H", HandshakeClientHelloMessage.type_id) + s.getvalue()
    n = len(s.getvalue())
    to_write = Packet.MAX_PAYLOAD_SIZE - 2 - 20 - n - 2 + pad_delta
    return body + b"\xAA" * max(0, to_write)


def bodies():
    """(label, message payload) for a count-1 datagram; the 2-byte message seq is added by the builder"""
    H = lambda x: struct.pack(">H", x)  # noqa
    out = [
        ("empty", b""), ("junk", bytes(range(37))),
        ("valid hello", hello_body()), ("hello, padding 1 short", hello_body(pad_delta=-1)), ("hello, padding 200 short", hello_body(pad_delta=-200)),
        ("hello without padding", hello_body(pad_delta=-10 ** 6)), ("hello, padding 1 long", hello_body(pad_delta=1)),
        ("hello, corrupt DER key", hello_body(corrupt_der=True)), ("hello, version 2", hello_body(version=2)),
        ("serializer bomb: nested seq", (H(16) + H(3) + b"\x01") * 300 + H(15)),
        ("serializer bomb: max length seq", H(16) + H(5) + struct.pack(">l", 2 ** 14) + H(15) * 8),
        ("serializer bomb: huge field count", H(HandshakeClientHelloMessage.type_id) + H(5) + struct.pack(">l", 2 ** 31 - 1)),
        ("unknown type id", H(0x7777) + b"\x00" * 16),
    ]
    return out


def family(tier):
    """yield (label, class, datagram)"""
    bl = bodies()
    types = list(range(0, 9))
    for blabel, body in bl:
        msg = b"\x00\x01" + body
        two = b"".join(struct.pack(">HHB", len(body), i + 1, 1) + body for i in range(2)) if len(body) < 700 else None
        for typ in types:
            if tier == "quick" and typ in (0, 7, 8) and blabel not in ("valid hello", "junk"):
                continue
            for count, payload in ((1, msg), (0, msg), (2, msg), (255, msg)):
                true_len = len(payload)
                for lf_label, lf in (("true", true_len), ("0", 0), ("1", 1), ("true+1", true_len + 1), ("65535", 65535)):
                    if tier == "quick" and lf_label in ("1", "65535") and (count != 1 or typ != 1):
                        continue
                    for magic_l, magic in (("to-server", TO_SERVER), ("to-client", TO_CLIENT), ("junk-magic", b"XXXX")):
                        if magic_l != "to-server" and (lf_label != "true" or count != 1):
                            continue
                        for ok in (True, False):
                            if not ok and (lf_label != "true" or count not in (1, 2)):
                                continue
                            d = crc(hdr(magic, typ, lf, count) + payload, ok)
                            if len(d) > Packet.RECV_SIZE:
                                continue
                            yield ("type %d count %d len-field %s %s crc-%s body: %s" % (typ, count, lf_label, magic_l, "ok" if ok else "bad", blabel),
                                   "structured: body=%s" % blabel, d)
            if two is not None:
                yield ("type %d two messages in one datagram: %s" % (typ, blabel), "structured: two messages, body=%s" % blabel, crc(hdr(TO_SERVER, typ, len(two), 2) + two))
    # raw lengths
    base = crc(hdr(TO_SERVER, 1, 2 + len(hello_body()), 1) + b"\x00\x01" + hello_body())
    for n in (0, 1, 4, 19, 20, 21, 24, 25, 100, len(base) - 1):
        yield ("valid hello truncated to %d bytes" % n, "truncated hello", base[:n])
    yield ("valid hello + 1 byte", "extended hello", base + b"\x00")
    yield ("RECV_SIZE zeros", "oversized", b"\x00" * Packet.RECV_SIZE)
    yield ("RECV_SIZE bytes behind a valid header", "oversized", (hdr(TO_SERVER, 1, 65535, 1) + b"\x41" * Packet.RECV_SIZE)[:Packet.RECV_SIZE])
    yield ("4096 bytes", "oversized", b"\x42" * 4096)


def random_family(seed, n):
    rnd = random.Random(seed)
    for L in (0, 1, 19, 20, 21, 40, 400, 1472):
        for i in range(n):
            yield ("random %d bytes #%d" % (L, i), "random bytes", bytes(rnd.getrandbits(8) for _ in range(L)))
            if L >= 20:
                yield ("random %d bytes behind magic #%d" % (L, i), "random bytes behind a valid magic", TO_SERVER + bytes(rnd.getrandbits(8) for _ in range(L - 4)))


class Env(object):
    """the world + echo service + bookkeeping for the oracles"""

    def __init__(self, mtu, blocklist, entry="twisted"):
        self.mtu = mtu
        self.blocklist = blocklist
        self.w = None
        self.build()

    def build(self):
        if self.w is not None:
            self.w.close()
        bl = set()
        if self.blocklist == "attacker":
            bl = {BLOCKED[0]}
        elif self.blocklist == "honest":
            bl = {BLOCKED[0], "10.0.1.1"}
        w = World(n_clients=1, mtu=self.mtu, server_cfg={"setBlockList": bl}, autoconnect=(self.blocklist != "honest"))
        self.w = w

        def echo(w_, client, seq, n):
            pass
        w.handler_hooks["handle_message"] = lambda w_, client, seq, n: None
        # echo service: handler echoes every message back (re-entrant send from the handler)
        orig = w.handler.handle_message

        def handle_message(client, seqnum, msg=b""):
            orig(client, seqnum, msg)
            client.send(b"echo:" + msg)
        w.handler.handle_message = handle_message
        self.honest_up = self.blocklist != "honest"
        if self.honest_up:
            w.run_until_connected()
            w.run(3)
            self.echo_round()
        # a connection waiting in the temp pool: hello from TEMP, no challenge response
        d = crc(hdr(TO_SERVER, 1, 2 + len(hello_body(14)), 1) + b"\x00\x01" + hello_body(14))
        w.inject("s", d, client_addr=TEMP)
        w.tick()
        self.n = 0
        self.flush()

    def flush(self):
        self.w.baton.resume()

    def echo_round(self):
        """the honest client sends one message and must get its echo within 12 ticks"""
        w = self.w
        ce = w.clients[0]
        tag = b"ping-%d" % len(ce.delivered)
        ce.client.send(tag, retry=0)
        for _ in range(12):
            w.tick()
            if any(p == b"echo:" + tag for _, p in ce.delivered):
                return True
        return False

    def batch_round(self, data, addr, k):
        """the honest client sends one message; k copies of a hostile datagram reach the server's queue ahead of it in the
        same loop iteration.  Returns the number of ticks until the echo is back (None: not within 16)."""
        w = self.w
        ce = w.clients[0]
        self.batches = getattr(self, "batches", 0) + 1
        tag = b"batch-%d" % self.batches
        ce.client.send(tag, retry=0)
        w.tick()           # leaves the client; in flight for one tick
        for i in range(k):
            a = addr if addr != FRESH else (FRESH[0], 5000 + (self.batches * 64 + i) % 60000)
            w.bytes_in[a] = w.bytes_in.get(a, 0) + len(data)
            try:
                w.server.datagramReceived(bytes(data), a)
            except Exception:
                pass
        for t in range(1, 17):
            w.tick()
            if any(p == b"echo:" + tag for _, p in ce.delivered):
                return t
        return None

    def observe(self):
        w = self.w
        hc = w.ctxt.connections.get(w.clients[0].addr)
        snap, dropped = snapshot(hc) if hc is not None else ({}, 0)
        return {
            "honest": snap, "honest_dropped": dropped,
            "events": tuple(e[:2] + e[3:] for e in w.handler_log if e[0] != "update"),
            "connections": tuple(sorted(w.ctxt.connections)), "temp": tuple(sorted(w.ctxt.temp_connections)),
            "sent": len(w.all_sent), "alive": not w.baton.dead,
        }

    def inject(self, data, addr, clock_moves=False):
        """returns list of (oracle, sig, message).  clock_moves: the caller advances time between injections, so the server's
        own timer-driven keep-alives to a still connected peer may be emitted in the same iteration (they are not replies)"""
        w = self.w
        out = []
        o0 = self.observe()
        q0 = len(w.server.thread.queue)
        w.bytes_in[addr] = w.bytes_in.get(addr, 0) + len(data)
        try:
            w.server.datagramReceived(bytes(data), addr)
        except Exception as e:
            out.append(("alive", "datagramReceived raises %s" % type(e).__name__, repr(e)))
        q1 = len(w.server.thread.queue)
        try:
            w.baton.resume()
        except seams.ServerStall as e:
            out.append(("alive", "the server loop stalls after a hostile datagram", str(e)))
            return out
        o1 = self.observe()
        blocked = addr[0] in w.ctxt.blocklist
        if not o1["alive"]:
            out.append(("alive", "the server thread died after a hostile datagram (%s)" % type(w.baton.error).__name__, repr(w.baton.error)))
            return out
        if blocked:
            if q1 != q0 or o1["temp"] != o0["temp"] or o1["connections"] != o0["connections"] or o1["events"] != o0["events"] or (o1["sent"] != o0["sent"] and not clock_moves):
                out.append(("blocklist", "a datagram from a block-listed address is processed (%s)" % ("queued" if q1 != q0 else "effect"),
                            "queue %d->%d temp %s sent %d->%d" % (q0, q1, o1["temp"] != o0["temp"], o0["sent"], o1["sent"])))
        if self.honest_up:
            if o0["honest"] != o1["honest"]:
                out.append(("honest", "a hostile datagram changes the honest client's connection (%s source)" % ("spoofed" if addr == w.clients[0].addr else "foreign"),
                            "changed %s" % diff_snap(o0["honest"], o1["honest"])[:6] if o1["honest"] and o0["honest"] else "connection removed/created"))
            if o1["events"] != o0["events"]:
                new = o1["events"][len(o0["events"]):]
                if any(e[0] != "connect" or e[1] is None for e in new) and addr != TEMP:
                    out.append(("honest", "a hostile datagram produces handler events", "%r" % (new[:3],)))
        # amplification
        for a, n_out in w.bytes_out.items():
            if a in w.ctxt.connections:
                continue
            if n_out > w.bytes_in.get(a, 0):
                out.append(("amplification", "more bytes sent to an address that has not completed the handshake than received from it",
                            "%s: sent %d received %d" % (a, n_out, w.bytes_in.get(a, 0))))
        self.n += 1
        return out

    def close(self):
        if self.w is not None:
            self.w.close()
            self.w = None


class _UdpWorld(object):
    """minimal world around the plain UDP entry point: the real _UdpServer.run on a receiver thread (pausing in
    recvfrom of a fake socket) + the real UdpServerThread.run on its own thread (same baton technique as World)
    + one real UdpClient.  Offers the attributes Env's oracles read."""

    def __init__(self, mtu, blocklist):
        import threading
        from mpgameserver.context import ServerContext
        from mpgameserver.server import _UdpServer
        from mpgameserver.client import UdpClient
        from mc.world import RecHandler, ClientEnd
        m = seams
        self.dt = 1.0 / 64
        self.tickno = 0
        self.vt = m.VirtualTime(1000.0)
        self.rnd = m.CounterRandom(0)
        self.keypool = m.KeyPool(0)
        self.sockets = []
        self.server_addr = ("10.0.0.1", 4000)
        self.patches = m.install(self.vt, self.rnd, self.keypool, owner=self)
        self.monitors = []
        self.handler_log = []
        self.handler_hooks = {}
        self.callback_log = []
        self.exceptions = []
        self._serials = {}
        self._serial_objs = []
        self.server_clients = []
        self.all_sent = []
        self.bytes_in = {}
        self.bytes_out = {}
        self.fault_free = True
        self._old_mtu = Packet.MTU
        if mtu != Packet.MTU:
            Packet.setMTU(mtu)
        self.root_key = self.keypool.new()
        self.handler = RecHandler(self)
        self.ctxt = ServerContext(self.handler, self.root_key)
        self.ctxt.setBlockList(blocklist)
        self.ctxt.setInterval(self.dt)
        self.baton = m.Baton()        # server loop thread
        self.baton_rx = m.Baton()     # receiver thread (_UdpServer.run)
        self.rx = []
        world = self

        class SrvSock(object):
            def setsockopt(self, *a):
                pass

            def bind(self, addr):
                world.bound = addr

            def fileno(self):
                return 7

            def recvfrom(self, n):
                world.baton_rx.pause("recvfrom")
                data, addr = world.rx.pop(0)
                return data[:n], addr

            def sendto(self, datagram, addr):
                world.on_server_write(bytes(datagram), addr)

            def close(self):
                pass

        class SockMod(object):
            AF_INET, SOCK_DGRAM, SOL_SOCKET, SO_REUSEADDR = 2, 2, 1, 2

            def socket(self, *a):
                return SrvSock()
        self.patches.set(m.m_server, "socket", SockMod())
        real_cls = m.m_server.UdpServerThread
        import threading as _threading

        def start(th):
            # called by _UdpServer.run on the freshly created server thread object: put it under the baton
            th.lk_queue = m.FakeLock()
            th.cv_queue = m.FakeCondition(world.baton)
            real_run = th.run

            def guarded():
                world.baton.to_server.acquire()
                try:
                    real_run()
                except BaseException as e:
                    world.baton.error = e
                finally:
                    world.baton.dead = True
                    world.baton.to_harness.release()
            th.run = guarded
            world.thread = th
            _threading.Thread.start(th)
        self.patches.set(real_cls, "start", start)
        self.udp = _UdpServer(self.ctxt, self.server_addr)

        def rx_main():
            world.baton_rx.to_server.acquire()
            try:
                world.udp.run()
            except BaseException as e:
                world.baton_rx.error = e
            finally:
                world.baton_rx.dead = True
                world.baton_rx.to_harness.release()
        self.rx_thread = threading.Thread(target=rx_main, daemon=True)
        self.rx_thread.start()
        self.baton_rx.resume()     # up to the first recvfrom
        if self.baton_rx.dead:
            self.patches.undo()
            raise RuntimeError("HARNESS-ERROR: _UdpServer.run ended at start-up: %r" % (self.baton_rx.error,))
        self.baton.resume()        # starting() + first iteration
        self.server = self         # Env reads w.server.thread.queue / datagramReceived
        self.clients = [ClientEnd(self, 0, ("10.0.1.1", 5000))]
        self.pinned = True

    # --- Env interface -----------------------------------------------------------------
    def serial(self, obj):
        k = id(obj)
        if k not in self._serials or self._serial_objs[self._serials[k]] is not obj:
            self._serials[k] = len(self._serial_objs)
            self._serial_objs.append(obj)
        return self._serials[k]

    def register_server_client(self, client):
        self.server_clients.append(client)

    def datagramReceived(self, data, addr):
        """what the OS would do: hand the datagram to the blocked recvfrom"""
        self.rx.append((bytes(data), addr))
        self.baton_rx.resume()
        if self.baton_rx.dead:
            raise RuntimeError("the receiver thread (_UdpServer.run) ended: %r" % (self.baton_rx.error,))

    def on_client_sendto(self, sock, datagram, addr):
        ce = self.clients[0]
        self.pending_c2s.append(bytes(datagram))

    def on_server_write(self, datagram, addr):
        self.all_sent.append((addr, datagram))
        self.bytes_out[addr] = self.bytes_out.get(addr, 0) + len(datagram)
        ce = self.clients[0]
        if addr == ce.addr and ce.sock is not None:
            ce.sock.inbox.append(datagram)

    def connect(self):
        from mpgameserver.client import UdpClient
        ce = self.clients[0]
        self.pending_c2s = []
        ce.client = UdpClient(self.root_key.getPublicKey())
        n0 = len(self.sockets)
        ce.client.connect(self.server_addr)
        ce.sock = self.sockets[n0]
        ce.sock.end = ce

    def inject(self, dst, data, client_addr=None, note=""):
        self.bytes_in[client_addr] = self.bytes_in.get(client_addr, 0) + len(data)
        self.datagramReceived(data, client_addr)

    def tick(self):
        self.tickno += 1
        self.vt.now += self.dt
        ce = self.clients[0]
        if ce.client is not None and ce.client.conn is not None:
            ce.client.update()
            for seq, payload in ce.client.getMessages():
                ce.delivered.append((int(seq), payload))
        for d in self.pending_c2s:
            self.bytes_in[ce.addr] = self.bytes_in.get(ce.addr, 0) + len(d)
            self.datagramReceived(d, ce.addr)
        self.pending_c2s = []
        self.baton.resume()

    def run(self, n):
        for _ in range(n):
            self.tick()

    def run_until_connected(self, limit=40):
        for _ in range(limit):
            self.tick()
            ce = self.clients[0]
            if ce.client.connected() and ce.addr in self.ctxt.connections:
                return
        raise RuntimeError("HARNESS-ERROR: handshake over the plain UDP entry point did not complete")

    @property
    def thread_queue(self):
        return self.thread.queue

    def close(self):
        try:
            self.ctxt._active = False
            n = 0
            while not self.baton.dead and not self.baton.stalled and n < 50:
                try:
                    self.baton.resume()
                except seams.ServerStall:
                    break
                n += 1
            # wake the receiver so that it notices _active == False
            if not self.baton_rx.dead:
                self.rx.append((b"", ("0.0.0.0", 0)))
                try:
                    self.baton_rx.resume()
                except seams.ServerStall:
                    pass
        finally:
            if Packet.MTU != self._old_mtu:
                Packet.setMTU(self._old_mtu)
            self.patches.undo()


class UdpEnv(Env):
    """same oracles, entry point _UdpServer.run"""

    def build(self):
        if self.w is not None:
            self.w.close()
        bl = set()
        if self.blocklist == "attacker":
            bl = {BLOCKED[0]}
        w = _UdpWorld(self.mtu, bl)
        self.w = w
        orig = w.handler.handle_message

        def handle_message(client, seqnum, msg=b""):
            orig(client, seqnum, msg)
            client.send(b"echo:" + msg)
        w.handler.handle_message = handle_message
        w.server = type("S", (), {"thread": w.thread, "datagramReceived": staticmethod(w.datagramReceived)})()
        self.honest_up = True
        w.connect()
        w.run_until_connected()
        w.run(3)
        if not self.echo_round():
            raise RuntimeError("HARNESS-ERROR: echo over the plain UDP entry point does not work")
        d = crc(hdr(TO_SERVER, 1, 2 + len(hello_body(14)), 1) + b"\x00\x01" + hello_body(14))
        w.inject("s", d, client_addr=TEMP)
        w.tick()
        self.n = 0
        self.flush()

    def observe(self):
        o = Env.observe(self)
        w = self.w
        o["alive"] = (not w.baton.dead) and (not w.baton_rx.dead)
        return o


def work_init(tier, seed):
    global _TIER, _SEED
    _TIER, _SEED = tier, seed


def work(arg):
    kind = arg[0]
    viols = {}
    counts = core.Counter()
    total = 0
    echoes = 0

    def flag(v, wit):
        for oracle, sig, msg in v:
            viols.setdefault((oracle, sig), [0, wit, msg])[0] += 1

    if kind == "family":
        _, mtu, blocklist, source, k, n, fam = arg[:7]
        entry = arg[7] if len(arg) > 7 else "twisted"
        env = Env(mtu, blocklist) if entry == "twisted" else UdpEnv(mtu, blocklist)
        try:
            addr = {"fresh": FRESH, "temp": TEMP, "spoofed": env.w.clients[0].addr, "blocked": BLOCKED}[source]
            items = family(_TIER) if fam == "structured" else random_family(_SEED * 31 + 5, 48)
            for i, (label, cls, data) in enumerate(items):
                if i % n != k:
                    continue
                total += 1
                a = addr
                if source == "fresh":
                    a = (FRESH[0], 2000 + (i % 60000))   # every datagram from a new port: always a 'new client'
                if source in ("spoofed", "temp") and len(data) >= 24 and data[:4] == TO_SERVER:
                    # first as generated (sequence number 1: stale for a connection that has been talking for a while) ...
                    v0 = env.inject(data, a)
                    counts.inc("injected")
                    flag(v0, {"part": "family", "mtu": mtu, "blocklist": blocklist, "source": source, "label": label, "hex": data[:600].hex()})
                    if v0 and any(o == "alive" for o, _, _ in v0):
                        env.build()
                    # ... then again with a sequence number just AHEAD of that connection's receive window
                    # (the attacker guesses it; anything in the forward half works); a valid CRC stays valid
                    sc_ = env.w.ctxt.connections.get(a) or env.w.ctxt.temp_connections.get(a)
                    if sc_ is not None:
                        had_crc = binascii.crc32(data[:-4]) & 0xFFFFFFFF == struct.unpack(">L", data[-4:])[0]
                        nseq = (int(sc_.bitfield_pkt.current_seqnum) + 7) % 65535 + 1
                        data = data[:8] + struct.pack(">H", nseq) + data[10:]
                        if had_crc:
                            data = crc(data[:-4])
                        label += " [seq ahead of the window]"
                v = env.inject(data, a)
                counts.inc("injected")
                wit = {"part": "family", "mtu": mtu, "blocklist": blocklist, "source": source, "label": label, "hex": data[:600].hex()}
                flag(v, wit)
                if v and any(o == "alive" for o, _, _ in v):
                    env.build()
                if total % 250 == 0:
                    # time passes, temp entries expire, the honest conversation goes on
                    env.w.run(140)
                    if env.honest_up:
                        echoes += 1
                        if not env.echo_round():
                            flag([("honest", "the honest client's echo does not arrive any more during the attack", "after %d injections" % total)], wit)
                            env.build()
                    w = env.w
                    w.inject("s", crc(hdr(TO_SERVER, 1, 2 + len(hello_body(14)), 1) + b"\x00\x01" + hello_body(14)), client_addr=TEMP)
                    w.bytes_in[TEMP] = w.bytes_in.get(TEMP, 0)
                    w.tick()
                    env.flush()
            if env.honest_up:
                echoes += 1
                if not env.echo_round():
                    flag([("honest", "the honest client's echo does not arrive any more after the attack", "%d injections" % total)], {"part": "family", "mtu": mtu, "source": source})
        finally:
            env.close()
    elif kind == "ban":
        # a peer is block-listed AFTER it completed the handshake (and another after its hello): from then on its
        # datagrams must be discarded before any processing, whichever way the list is changed
        _, mtu, how, entry = arg
        env = Env(mtu, "none") if entry == "twisted" else UdpEnv(mtu, "none")
        try:
            w = env.w
            ce = w.clients[0]
            wit = {"part": "ban", "mtu": mtu, "how": how, "entry": entry}
            ips = {ce.addr[0], TEMP[0]}
            if how == "add":
                for ip in ips:
                    w.ctxt.blocklist.add(ip)
            else:
                w.ctxt.setBlockList(set(ips))
            env.honest_up = False   # the formerly honest client is now a banned source: the 'honest unchanged' oracle does not apply,
            hc = w.ctxt.connections.get(ce.addr)   # ... but its connection must not process anything any more
            recv0 = hc.stats.received if hc is not None else None
            events0 = len([e for e in w.handler_log if e[0] == "handle_message"])
            for t in range(24):
                if t % 4 == 0:
                    ce.client.send(b"after-ban-%d" % t, retry=0)
                w.vt.now += w.dt
                w.tickno += 1
                ce.client.update()
                out = [d for d in getattr(w, "net", []) if d.dst == "s"] if hasattr(w, "net") else []
                datas = [d.data for d in out]
                if hasattr(w, "net"):
                    w.net = [d for d in w.net if d.dst != "s"]
                else:
                    datas = list(w.pending_c2s)
                    w.pending_c2s = []
                for data in datas:
                    total += 1
                    flag(env.inject(data, ce.addr, clock_moves=True), wit)
                flag(env.inject(crc(hdr(TO_SERVER, 3, 6, 1) + b"\x00\x01junk"), TEMP, clock_moves=True), wit)
                total += 1
            if hc is not None and hc.stats.received != recv0:
                flag([("blocklist", "a connected peer that was block-listed afterwards is still served", "its connection accepted %d more datagrams" % (hc.stats.received - recv0))], wit)
            if len([e for e in w.handler_log if e[0] == "handle_message"]) != events0:
                flag([("blocklist", "messages of a peer that was block-listed after connecting still reach the handler", "")], wit)
        finally:
            env.close()
    elif kind == "reflect":
        # somebody who sees the traffic sends GENUINE datagrams of the established session back where they came from:
        # the server's own datagrams to the honest client, unchanged, with the client's address as source (they are valid
        # ciphertext under the session key; only the direction identifier tells them from the client's).  The server has
        # been talking more than the client, so their numbers lie ahead of the server's receive window.
        _, mtu, entry, talk = arg
        env = Env(mtu, "none") if entry == "twisted" else UdpEnv(mtu, "none")
        try:
            w = env.w
            ce = w.clients[0]
            for i in range(talk):
                w.ctxt.connections[ce.addr].send(b"world state %d" % i)
                w.tick()
            env.flush()
            # World records Dgram objects, the UDP world (server address, bytes) pairs of what the server wrote
            own = [(d.data if hasattr(d, "data") else d[1]) for d in w.all_sent
                   if (d.src == "s" and d.client_addr == ce.addr if hasattr(d, "data") else d[0] == ce.addr)]
            own = [x for x in own if len(x) >= 36][-(talk + 12):]
            wit = {"part": "reflect", "mtu": mtu, "entry": entry, "talk": talk}
            for data in own + own[::-1]:
                total += 1
                counts.inc("reflected")
                v = env.inject(data, ce.addr)
                flag([(o, sg.replace("a hostile datagram", "a genuine server-to-client datagram reflected to the server"), m) for o, sg, m in v], wit)
                if v and any(o == "alive" for o, _, _ in v):
                    env.build()
                    break
            for _ in range(3):
                echoes += 1
                if not env.echo_round():
                    flag([("honest", "the honest client's echo does not arrive any more after its server's datagrams were reflected to the server", "%d datagrams" % len(own))], wit)
                    break
        finally:
            env.close()
    elif kind == "batch":
        # hostile datagrams cost the honest clients no loop iterations: a batch of them queued AHEAD of an honest datagram in
        # the same iteration does not postpone the answer
        _, mtu, source, entry = arg
        env = Env(mtu, "none") if entry == "twisted" else UdpEnv(mtu, "none")
        try:
            w = env.w
            addr = {"fresh": FRESH, "temp": TEMP, "spoofed": w.clients[0].addr}[source]
            base = [env.batch_round(b"", addr, 0) for _ in range(3)]
            items = [(l, c, d) for l, c, d in family("quick") if ("len-field true" in l and "to-server" in l and "count 1" in l and ("body: junk" in l or "body: valid hello" in l or "body: empty" in l))
                     or "truncated to 2" in l or "truncated to 19" in l or "4096 bytes" in l]
            for l, c, d in items:
                for k in (24,):
                    if source == "temp" and TEMP not in w.ctxt.temp_connections:
                        # keep the address half-open
                        w.inject("s", crc(hdr(TO_SERVER, 1, 2 + len(hello_body(14)), 1) + b"\x00\x01" + hello_body(14)), client_addr=TEMP)
                        w.tick()
                        env.flush()
                    total += k
                    t = env.batch_round(d, addr, k)
                    counts.inc("batches")
                    if w.baton.dead or None in base:
                        break
                    if t is None or t > max(base) + 1:
                        flag([("honest", "hostile datagrams queued ahead of an honest client's datagram postpone its service by whole loop iterations (%s source)" % source,
                               "%d copies of [%s] from %s: echo after %s ticks, %r without them" % (k, l, source, t, base))],
                             {"part": "batch", "mtu": mtu, "source": source, "entry": entry, "label": l, "hex": d[:600].hex()})
                        env.build()
                        w = env.w
                        addr = {"fresh": FRESH, "temp": TEMP, "spoofed": w.clients[0].addr}[source]
        finally:
            env.close()
    elif kind == "pairs":
        _, mtu = arg
        env = Env(mtu, "none")
        try:
            # pairs of the most 'productive' datagrams, each followed by one loop iteration, from the same fresh address
            items = [(l, c, d) for l, c, d in family("quick") if "crc-ok" in l and "len-field true" in l and "to-server" in l and (" type 1 " in " " + l + " " or "type 3" in l or "type 6" in l) and "count 1" in l]
            items = items[:40]
            for (l1, c1, d1), (l2, c2, d2) in itertools.product(items, repeat=2):
                total += 2
                a = (FRESH[0], 3000 + (total // 2) % 60000)
                wit = {"part": "pairs", "mtu": mtu, "first": l1, "second": l2}
                flag(env.inject(d1, a), wit)
                flag(env.inject(d2, a), wit)
                if total % 400 == 0:
                    env.w.run(140)
                    echoes += 1
                    if not env.echo_round():
                        flag([("honest", "the honest client's echo does not arrive any more during the attack", "pairs")], wit)
                        env.build()
        finally:
            env.close()
    elif kind == "mass":
        _, mtu, n_addr = arg
        env = Env(mtu, "none")
        try:
            w = env.w
            body = hello_body(13)
            d = crc(hdr(TO_SERVER, 1, 2 + len(body), 1) + b"\x00\x01" + body)
            wit = {"part": "mass", "mtu": mtu, "addresses": n_addr}
            for i in range(n_addr):
                total += 1
                a = ("10.%d.%d.%d" % (70 + i // 65536, (i // 256) % 256, i % 256), 4000)
                flag(env.inject(d, a), wit)
                if i % 200 == 199:
                    echoes += 1
                    if not env.echo_round():
                        flag([("honest", "the honest client's echo does not arrive during a flood of hellos", "after %d hellos" % (i + 1))], wit)
            peak = len(w.ctxt.temp_connections)
            w.run(int(2.5 / w.dt))
            if len(w.ctxt.temp_connections) > 1:
                flag([("alive", "temp connections of a hello flood never expire", "%d left of %d" % (len(w.ctxt.temp_connections), peak))], wit)
            echoes += 1
            if not env.echo_round():
                flag([("honest", "the honest client's echo does not arrive after a flood of hellos", "")], wit)
            counts.inc("mass_peak_temp", peak)
        finally:
            env.close()
    return total, dict(counts), viols, echoes


def run(tier, seed):
    rep = core.Report()
    jobs = []
    for mtu in (1500, 512):
        for blocklist in ("none", "attacker", "honest"):
            for source in ("fresh", "temp", "spoofed", "blocked"):
                if blocklist == "honest" and source == "spoofed":
                    pass  # the honest address is block-listed here: its 'own' datagrams must be ignored too
                n = 4 if (blocklist == "none") else 2
                for k in range(n):
                    jobs.append(("family", mtu, blocklist, source, k, n, "structured"))
                jobs.append(("family", mtu, blocklist, source, 0, 1, "random"))
        # the plain UDP server's receive loop (_UdpServer.run) as entry point
        for blocklist in ("none", "attacker"):
            for source in ("fresh", "temp", "spoofed", "blocked"):
                jobs.append(("family", mtu, blocklist, source, 0, 1 if tier == "thorough" else 2, "structured", "udp"))
        jobs.append(("pairs", mtu))
        for source in ("fresh", "temp", "spoofed"):
            jobs.append(("batch", mtu, source, "twisted"))
        for how in ("add", "setBlockList"):
            for entry in ("twisted", "udp"):
                jobs.append(("ban", mtu, how, entry))
        jobs.append(("mass", mtu, 2000 if tier == "quick" else 6000))
        for entry in ("twisted", "udp"):
            for talk in ((0, 40) if tier == "quick" else (0, 8, 40, 300)):
                jobs.append(("reflect", mtu, entry, talk))
    if seed:
        k = seed % len(jobs)
        jobs = jobs[k:] + jobs[:k]
    res = core.pmap("checks.c11", "work", jobs, initargs=(tier, seed))
    total = sum(r[0] for r in res)
    echoes = sum(r[3] for r in res)
    acc = {}
    classes = core.Counter()
    for t, counts, viols, e in res:
        for k, v in counts.items():
            classes.inc(k, v)
        for key, (cnt, wit, msg) in viols.items():
            if key not in acc:
                acc[key] = [0, wit, msg]
            acc[key][0] += cnt
    for (oracle, sig), (cnt, wit, msg) in sorted(acc.items()):
        rep.add_violation(core.Violation(oracle, sig, wit, "%s [%d injections]" % (msg[:400], cnt)))
    rnd = sum(r[0] for r, j in zip(res, jobs) if j[0] == "family" and j[6] == "random")
    n_batches = sum(r[1].get("batches", 0) for r in res)
    rep.coverage = {
        "states": len(jobs), "transitions": total, "traces_validated_against_impl": total,
        "injections": total, "injections_structured": total - rnd, "injections_random_supplement": rnd, "echo_round_trips_checked": echoes, "batches_ahead_of_an_honest_datagram": n_batches,
        "worlds": len(jobs), "classes": dict(classes),
        "evaluations": total, "distinct_nontrivial": total - rnd,
        "rule": "structured family = body kind (13: empty, junk, valid hello, 6 damaged hellos, 3 serializer bombs, unknown id) x type byte 0..8 x count {0,1,2,255} x length field {true,0,1,true+1,65535} x magic x crc ok/bad + two-message datagrams + raw lengths incl. RECV_SIZE; "
                "x source {fresh port each time, temp-pool address, spoofed honest address, block-listed} x block list {none, attacker, honest} x MTU {1500, 512}; pairs of productive datagrams; block-listing a connected peer and a temp-pool peer mid-session (set.add and setBlockList, both entry points); a flood of hellos from 2000/6000 addresses; the server's own genuine datagrams reflected to it from the client's address (server ahead of the client by 0/40 datagrams, both entry points); every injection through datagramReceived + one real loop iteration",
        "exhaustive": True,
        "samples": [{"source": "fresh", "label": "type 1 count 1 len-field true to-server crc-ok body: hello, padding 1 short"},
                    {"source": "spoofed", "label": "type 6 count 2 len-field true to-server crc-ok body: junk"}, {"mass": 2000}],
    }
    rep.assumptions = ["entry points TwistedServer.datagramReceived and _UdpServer.run (fake socket module, receiver thread under its own baton); the receiver/server-thread queue hand-off is treated as atomic (it is under lk_queue)",
                       "random supplement seeded, not part of the exhaustive claim"]
    return rep


def replay(witness):
    work_init("quick", 0)
    if witness.get("part") == "family":
        env = Env(witness["mtu"], witness["blocklist"])
        try:
            addr = {"fresh": FRESH, "temp": TEMP, "spoofed": env.w.clients[0].addr, "blocked": BLOCKED}[witness["source"]]
            v = env.inject(bytes.fromhex(witness["hex"]), addr)
            return [core.Violation(o, s, witness, m) for o, s, m in v]
        finally:
            env.close()
    if witness.get("part") == "batch":
        t, c, viols, e = work(("batch", witness["mtu"], witness["source"], witness.get("entry", "twisted")))
        return [core.Violation(k[0], k[1], witness, x[2]) for k, x in viols.items()]
    return []
