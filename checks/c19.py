"""C19 - password hashing: the right password verifies, every other one does
not, salts are fresh, malformed hash strings never verify.

Engine C.  scrypt(N=16384, r=16) costs ~0.085 s, so the bounds are small and
stated: all byte strings over {a, b, NUL} of length <= 2 (quick) / 3
(thorough) plus long and near-identical passwords, ALL ordered pairs; every
truncation, field removal/duplication, per-character replacement and
parameter edit of a hash string.  Most corruptions are applied to hash strings
built by a reference encoder with cheap parameters (N=2, r=1), which
verify_password honours because it reads the parameters from the string.
"""
import base64
import hashlib
import itertools
import os
import struct

from mc import core

core.import_repo()
from mpgameserver.auth import Auth  # noqa
from cryptography.hazmat.primitives.kdf import scrypt as _scrypt  # noqa

PROPERTY = "C19"
LEVEL = "exploration"

B64 = "ABCDEFGHIJKLMNOPQRSTUVWXYZabcdefghijklmnopqrstuvwxyz0123456789+/"


def ref_hash(password, salt, N=2, r=1, p=1, length=24):
    """independent encoder of the documented format method:version:params:salt+hash"""
    km = hashlib.sha256(password).digest()
    digest = _scrypt.Scrypt(salt, length, N, r, p).derive(km)
    params = struct.pack(">HBBBB", N, r, p, len(salt), length)
    return "scrypt:1:%s:%s" % (base64.b64encode(params).decode(), base64.b64encode(salt + digest).decode())


def denote(s):
    """what a hash string denotes, or None if it cannot be read"""
    try:
        parts = s.encode("utf-8").split(b":")
        if len(parts) != 4:
            return None     # the documented format has exactly four ':' separated fields
        params = base64.b64decode(parts[2])
        data = base64.b64decode(parts[3])
        N, r, p, sl, ln = struct.unpack(">HBBBB", params)
        return (parts[0], parts[1], N, r, p, sl, ln, data[:sl], data[sl:])
    except Exception:
        return None


def passwords(tier):
    out = []
    for n in range(0, (2 if tier == "quick" else 3) + 1):
        for t in itertools.product(b"ab\x00", repeat=n):
            out.append(bytes(t))
    return out


def extra_pairs():
    big = b"p" * 1024
    huge = b"q" * (1 << 20)
    return [(b"pass", b"pass\x00"), (b"pass", b"Pass"), (b"pass", b"pasr"), (b"pass", b"pass "), (b"\xff", b"\xfe"),
            (big, big[:-1]), (big, big + b"p"), (huge, huge[:-1] + b"r"), (b"", b"\x00"), (b"a" * 64, b"a" * 65),
            (hashlib.sha256(b"x").digest(), b"x"), (b" pass", b"pass"), (b"pass\n", b"pass"), (b"pass\r\n", b"pass\n"),
            (b"\xc3\xa9", b"\xe9"), (b"\xc3\xa9", b"e\xcc\x81"), (b"\xc3\xa9", b"\xc3"), (b"\xff\xfe", b"\xff"), (b"pa:ss", b"pa"), (b"pa$ss", b"pa")]


def corruptions(h):
    """yield (label, corrupted string) - single-site damage of a valid hash string"""
    for i in range(len(h)):
        yield "truncate", h[:i]
    parts = h.split(":")
    for i in range(4):
        yield "remove-field-%d" % i, ":".join(parts[:i] + parts[i + 1:])
        yield "duplicate-field-%d" % i, ":".join(parts[:i + 1] + parts[i:])
        yield "empty-field-%d" % i, ":".join(parts[:i] + [""] + parts[i + 1:])
    yield "extra-field", h + ":extra"
    yield "extra-field", h + ":"
    yield "extra-field", h + "::"
    yield "extra-field", h + ":AAAA"
    yield "extra-field", h + ":x:y"
    yield "extra-field", h + ":" + h
    last0 = len(h) - len(h.split(":")[-1])
    for i in range(last0, len(h)):
        yield "extra-field", h[:i] + ":" + h[i:]        # a separator inside the salt+digest field
    for i in range(0, last0, 3):
        yield "extra-field", h[:i] + ":" + h[i:]
    yield "leading-colon", ":" + h
    yield "no-colons", h.replace(":", "")
    yield "colons->semicolons", h.replace(":", ";")
    for i, ch in enumerate(h):
        if ch == ":":
            continue
        j = B64.find(ch)
        rep = B64[(j + 1) % 64] if j >= 0 else "A"
        yield "replace-char", h[:i] + rep + h[i + 1:]
        yield "replace-char-flipcase", h[:i] + (ch.swapcase() if ch.swapcase() != ch else B64[(j + 7) % 64]) + h[i + 1:]
        for bad in "! \n=":
            yield "non-base64-char", h[:i] + bad + h[i + 1:]
        yield "delete-char", h[:i] + h[i + 1:]
        yield "insert-char", h[:i] + "A" + h[i:]
    d = denote(h)
    m, v, N, r, p, sl, ln, salt, digest = d

    def enc(N=N, r=r, p=p, sl=sl, ln=ln, m=m, v=v):
        return "%s:%s:%s:%s" % (m.decode(), v.decode(), base64.b64encode(struct.pack(">HBBBB", N, r, p, sl, ln)).decode(), parts[3])
    for n2 in (0, 1, 3, 4, 8192, 32768):
        if n2 != N:
            yield "param-N", enc(N=n2)
    for r2 in (0, 2, 8):
        if r2 != r:
            yield "param-r", enc(r=r2)
    for p2 in (0, 2):
        if p2 != p:
            yield "param-p", enc(p=p2)
    for s2 in (0, 15, 17, 40, 255):
        yield "param-salt-length", enc(sl=s2)
    for l2 in (0, 1, 23, 25, 255):
        yield "param-length", enc(ln=l2)
    for m2 in (b"", b"Scrypt", b"bcrypt", b"scrypt2"):
        yield "method", enc(m=m2)
    for v2 in (b"", b"0", b"2", b"01", b"1.0"):
        yield "version", enc(v=v2)
    for k in range(1, 6):
        yield "params-short", "%s:%s:%s:%s" % (parts[0], parts[1], base64.b64encode(struct.pack(">HBBBB", N, r, p, sl, ln)[:k]).decode(), parts[3])
    yield "params-long", "%s:%s:%s:%s" % (parts[0], parts[1], base64.b64encode(struct.pack(">HBBBB", N, r, p, sl, ln) + b"\x00").decode(), parts[3])
    yield "salt-only", "%s:%s:%s:%s" % (parts[0], parts[1], parts[2], base64.b64encode(salt).decode())
    yield "digest-extended", "%s:%s:%s:%s" % (parts[0], parts[1], parts[2], base64.b64encode(salt + digest + b"\x00").decode())
    yield "digest-bitflip", "%s:%s:%s:%s" % (parts[0], parts[1], parts[2], base64.b64encode(salt + bytes([digest[0] ^ 1]) + digest[1:]).decode())
    yield "salt-bitflip", "%s:%s:%s:%s" % (parts[0], parts[1], parts[2], base64.b64encode(bytes([salt[0] ^ 1]) + salt[1:] + digest).decode())


def judge_corrupt(pw, h, label, s):
    want = denote(h)
    try:
        res = Auth.verify_password(pw, s)
    except (ValueError, TypeError):
        return "raises-ValueError/TypeError", None
    except Exception as e:
        return "raises-other", ("malformed-exception-type", "verify_password raises %s for a malformed hash (%s)" % (type(e).__name__, label if label != "truncate" else "truncated: %d ':' separated fields left" % (s.count(":") + 1)),
                                "verify_password(%r, %r) raised %r" % (pw[:20], s, e))
    if res is False:
        return "False", None
    if res is True:
        if denote(s) == want:
            return "True-same-denotation", None
        return "True", ("malformed-verifies", "verify_password returns True for a damaged hash string (%s)" % label,
                        "verify_password(%r, %r) == True; original %r" % (pw[:20], s, h))
    return "other", ("malformed-result", "verify_password returned %r" % (res,), s)


def work_init(tier):
    global _TIER
    _TIER = tier


def work(arg):
    kind = arg[0]
    counts = core.Counter()
    viols = {}
    total = 0

    def flag(bad, wit):
        if bad:
            viols.setdefault((bad[0], bad[1]), [0, wit, bad[2]])[0] += 1

    if kind == "pairs":
        p = arg[1]
        plist = arg[2]
        h1 = Auth.hash_password(p)
        h2 = Auth.hash_password(p)
        total += 2
        d1, d2 = denote(h1), denote(h2)
        if h1 == h2 or d1 is None or d2 is None or d1[7] == d2[7]:
            flag(("fresh-salt", "two hashes of one password share the salt", "%r %r" % (h1, h2)), {"kind": "pairs", "password": p.hex()})
        if d1 is not None and (len(d1[7]) != 16 or len(d1[8]) != 24 or d1[2:5] != (16384, 16, 1)):
            flag(("format", "hash_password parameters differ from the documented ones", repr(d1[:7])), {"kind": "pairs", "password": p.hex()})
        for q in plist:
            total += 1
            try:
                r = Auth.verify_password(q, h1)
            except Exception as e:
                r = e
            want = (q == p)
            counts.inc("verify:%s" % (r if isinstance(r, bool) else type(r).__name__))
            if r is not want:
                flag(("verify", "verify_password(q, hash(p)) is %r for %s" % (r if isinstance(r, bool) else type(r).__name__, "q == p" if want else "q != p"),
                      "p=%r q=%r hash=%r -> %r" % (p[:20], q[:20], h1, r)), {"kind": "pairs", "password": p.hex(), "guess": q.hex()})
        # the second hash verifies too
        total += 1
        if Auth.verify_password(p, h2) is not True:
            flag(("verify", "verify_password(p, hash(p)) is not True (second hash)", h2), {"kind": "pairs", "password": p.hex()})
    elif kind == "history":
        # process history: the parent hashes `pre` times, then two children (forked processes - what a TaskPool worker
        # is - or threads) each hash the same password k times; every salt ever produced is distinct
        p, pre, mode, k = arg[1:]
        hashes = [Auth.hash_password(p) for _ in range(pre)]
        if mode == "fork":
            pipes = []
            for _child in range(2):
                r, wr = os.pipe()
                pid = os.fork()
                if pid == 0:
                    code = 0
                    try:
                        os.close(r)
                        out = "\n".join(Auth.hash_password(p) for _ in range(k))
                        os.write(wr, out.encode())
                    except BaseException:
                        code = 3
                    finally:
                        os._exit(code)
                os.close(wr)
                pipes.append((pid, r))
            for pid, r in pipes:
                buf = b""
                while True:
                    chunk = os.read(r, 65536)
                    if not chunk:
                        break
                    buf += chunk
                os.close(r)
                os.waitpid(pid, 0)
                hashes += [x for x in buf.decode().split("\n") if x]
        else:
            import threading
            got = []
            ths = [threading.Thread(target=lambda: got.extend(Auth.hash_password(p) for _ in range(k))) for _child in range(2)]
            for t in ths:
                t.start()
            for t in ths:
                t.join()
            hashes += got
        hashes += [Auth.hash_password(p)]
        total += len(hashes)
        counts.inc("history:%s" % mode, len(hashes))
        salts = [denote(h)[7] if denote(h) is not None else None for h in hashes]
        if len(hashes) != pre + 2 * k + 1 or None in salts or len(set(salts)) != len(salts):
            flag(("fresh-salt", "hashes of one password made by a process and its %s share a salt" % ("forked children" if mode == "fork" else "threads"),
                  "parent hashed %d time(s) first, two children %d time(s) each: salts %r" % (pre, k, [x.hex() if x else x for x in salts])),
                 {"kind": "history", "password": p.hex(), "pre": pre, "mode": mode, "k": k})
        for h in hashes:
            total += 1
            if Auth.verify_password(p, h) is not True:
                flag(("verify", "verify_password(p, hash(p)) is not True for a hash made in a child", h), {"kind": "history", "password": p.hex(), "pre": pre, "mode": mode, "k": k})
    elif kind == "extra":
        p, q = arg[1], arg[2]
        h = Auth.hash_password(p)
        for guess, want in ((p, True), (q, False)):
            total += 1
            r = Auth.verify_password(guess, h)
            counts.inc("verify:%s" % r)
            if r is not want:
                flag(("verify", "near-identical / long password: verify is %r, expected %r" % (r, want), "p=%r.. q=%r.. len %d/%d" % (p[:12], q[:12], len(p), len(q))),
                     {"kind": "extra", "p": p[:64].hex(), "q": q[:64].hex()})
    elif kind == "corrupt":
        pw, salt, expensive, k, n = arg[1:]
        h = Auth.hash_password(pw) if expensive else ref_hash(pw, salt)
        if Auth.verify_password(pw, h) is not True:
            flag(("verify", "reference-encoded hash string does not verify", h), {"kind": "corrupt", "hash": h})
        for i, (label, s) in enumerate(corruptions(h)):
            if i % n != k:
                continue
            if s == h:
                continue
            if expensive and label not in ("truncate", "param-N", "param-r", "param-p", "param-salt-length", "param-length", "digest-bitflip", "salt-bitflip", "extra-field"):
                continue
            if expensive and label == "truncate" and (i % 3):
                continue
            total += 1
            cls, bad = judge_corrupt(pw, h, label, s)
            counts.inc(label + ":" + cls)
            flag(bad, {"kind": "corrupt", "password": pw.hex(), "hash": h, "label": label, "string": s})
    return total, dict(counts), viols


def _samples():
    h = ref_hash(b"correct horse", b"S" * 16)
    out = []
    for i, (label, s) in enumerate(corruptions(h)):
        if i in (31, 120, 400, 900):
            cls, bad = judge_corrupt(b"correct horse", h, label, s)
            out.append({"hash": h, "corruption": label, "string": s, "outcome": cls})
    out.append({"p": "b'a\\x00'", "q": "b'a'", "verify(q, hash(p))": Auth.verify_password(b"a", Auth.hash_password(b"a\x00"))})
    return out


def run(tier, seed):
    rep = core.Report()
    plist = passwords(tier)
    jobs = [("pairs", p, plist) for p in plist]
    jobs += [("extra", p, q) for p, q in extra_pairs()]
    jobs += [("history", pw, pre, mode, k) for pw in (b"pw", b"") for pre in (0, 1, 2, 3) for mode in ("fork", "thread") for k in (1, 2)]
    n = 8
    for pw, salt in ((b"correct horse", b"S" * 16), (b"", bytes(range(16))), (b"\x00\xff", b"\xff" * 16)):
        jobs += [("corrupt", pw, salt, False, k, n) for k in range(n)]
    jobs += [("corrupt", b"pw%d" % (seed % 97), None, True, k, 16) for k in range(16)]
    res = core.pmap("checks.c19", "work", jobs, initargs=(tier,))
    total = 0
    classes = core.Counter()
    acc = {}
    for t, counts, viols in res:
        total += t
        for k, v in counts.items():
            classes.inc(k, v)
        for key, (cnt, wit, msg) in viols.items():
            if key not in acc:
                acc[key] = [0, wit, msg]
            acc[key][0] += cnt
    for (oracle, sig), (cnt, wit, msg) in sorted(acc.items()):
        rep.add_violation(core.Violation(oracle, sig, wit, "%s [%d cases]" % (msg, cnt)))
    summary = core.Counter()
    for k, v in classes.items():
        summary.inc(k.split(":")[-1] if not k.startswith("verify") else k, v)
    rep.coverage = {
        "evaluations": total, "distinct_nontrivial": sum(v for k, v in classes.items() if not k.endswith("raises-ValueError/TypeError")),
        "rule": "passwords: all %d byte strings over {a,b,NUL} of length<=%d, ALL ordered pairs (p,q) against hash(p), two hashes each; %d near-identical/long pairs; "
                "process histories: parent hashes 0-3 times, then two forked children / two threads hash 1-2 times each, all salts distinct; corruptions: every truncation, field removal/duplication/emptying, per-character replacement/deletion/insertion/non-base64 substitution, parameter/method/version edits of 3 cheap-parameter "
                "hash strings (reference encoder) and a thinned set on one real hash. non-trivial = evaluations whose outcome was not an immediate ValueError/TypeError" % (
                    len(plist), 2 if tier == "quick" else 3, len(extra_pairs())),
        "outcomes": dict(summary), "exhaustive": True,
        "samples": core.safe_samples(_samples),
    }
    rep.assumptions = ["'malformed' = does not denote the original (method, version, parameters, salt, digest) under base64 decoding; a damaged string that still denotes exactly those may verify",
                       "scrypt itself is trusted; collisions of sha256/scrypt are out of scope"]
    return rep


def replay(witness):
    work_init("quick")
    if witness.get("kind") == "corrupt":
        pw = bytes.fromhex(witness["password"])
        cls, bad = judge_corrupt(pw, witness["hash"], witness["label"], witness["string"])
        return [core.Violation(bad[0], bad[1], witness, bad[2])] if bad else []
    if witness.get("kind") == "history":
        t, c, viols = work(("history", bytes.fromhex(witness["password"]), witness["pre"], witness["mode"], witness["k"]))
        return [core.Violation(o, sg, witness, v[2]) for (o, sg), v in viols.items()]
    if witness.get("kind") == "pairs":
        p = bytes.fromhex(witness["password"])
        q = bytes.fromhex(witness.get("guess", witness["password"]))
        r = Auth.verify_password(q, Auth.hash_password(p))
        if r is not (p == q):
            return [core.Violation("verify", "verify_password(q, hash(p)) is %r" % r, witness, "")]
    return []
