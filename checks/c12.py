"""C12 - keep-alives and timeouts: idle links stay up, dead peers are detected,
settings take effect.

Engine A on the full stack, no network faults except scripted link cuts.

 idle     configuration grid (keep-alive x connection timeout x frame length,
          keep-alive < timeout), tick by tick with a canonical state on AGES and
          RELATIVE sequence numbers; for dyadic frames the state repeats: a closed
          cycle is a proof of 'stays up indefinitely' under uniform ticks.  Plus all
          2^10 jitter sequences (each of the first 10 frames 1x or 2x long).
 cut      the link is cut (both directions / one) at every tick phase of one
          keep-alive period; server must call disconnect within one tick after the
          connection timeout, client must report DROPPED within one frame after 5 s
 connect  unanswered connect attempt, with and without a callback, timeout grid
 setters  every subset of {setKeepAliveInterval, setConnectionTimeout,
          setMessageTimeout} applied before / after connect in every order, and
          the five ServerContext setters; the effect is observed afterwards
"""
import itertools

from mc import core, explore
from mc.world import World, Monitor
from mc.pair import payload

core.import_repo()
from mpgameserver.connection import ConnectionStatus  # noqa

PROPERTY = "C12"
LEVEL = "model_checking"

EPS = 1e-9
SEND_INTERVAL = 1.0 / 60


def send_tick(frame):
    """period at which the rate cap lets an endpoint emit: smallest multiple of the frame that exceeds send_interval"""
    k = 1
    while k * frame <= SEND_INTERVAL + 1e-12:
        k += 1
    return k * frame


def rel_state(w):
    now = w.vt.now
    c, s = w.clients[0].conn, w.server_conn(0)
    if c is None or s is None:
        return None

    def age(t):
        return round(now - t, 9) if t > 0 else t

    def one(x, peer):
        return (x.status.value, int(x.seq_sending) - int(peer.bitfield_pkt.current_seqnum), x.bitfield_pkt.bits,
                age(x.last_recv_time), age(x.last_send_time),
                # the keep-alive timer and any other stored time, whatever the attribute is called
                tuple((k, age(v)) for k, v in sorted(vars(x).items()) if isinstance(v, float) and v > 500 and k not in ("last_recv_time", "last_send_time")),
                tuple(sorted((int(k) - int(x.seq_sending), age(v)) for k, v in x.pending_acks.items())),
                len(x.outgoing_messages), len(x.pending_retry_msg))
    net = tuple(sorted((d.dst == "s", d.release_tick - w.tickno, len(d.data)) for d in w.net))
    inbox = tuple(len(sk.inbox) for sk in w.sockets)
    return (one(c, s), one(s, c), net, inbox)


def gaps(w, since_tick):
    out = {"c": [], "s": []}
    last = {}
    for d in w.all_sent:
        if d.sent_tick < since_tick:
            continue
        k = "s" if d.src == "s" else "c"
        if k in last:
            out[k].append(d.sent_time - last[k])
        last[k] = d.sent_time
    return out


def idle_work(arg):
    ka, tconn, frame, horizon_s = arg[:4]
    lat = arg[4] if len(arg) > 4 else 1
    viols = {}
    wit = {"part": "idle", "keep_alive": ka, "connection_timeout": tconn, "frame": frame, "latency_ticks": lat}

    def flag(oracle, sig, msg):
        viols.setdefault((oracle, sig), [0, wit, msg])[0] += 1

    w = World(dt=frame, server_cfg={"setKeepAliveInterval": ka, "setConnectionTimeout": tconn}, start_time=1024.0, latency=lat)
    cycle = None
    states = 0
    try:
        w.run_until_connected(limit=int(3.0 / frame) + 40 + 4 * lat)
        w.clients[0].client.setKeepAliveInterval(ka)
        seen = {}
        t0 = w.tickno
        n = int(horizon_s / frame)
        for i in range(n):
            w.tick()
            c, s = w.clients[0].conn, w.server_conn(0)
            if s is None or c.status != ConnectionStatus.CONNECTED or s.status != ConnectionStatus.CONNECTED:
                flag("idle-stays-up", "an idle connection over a working network does not stay up", "after %.3f s idle: client %s, server side %s" % (
                    (w.tickno - t0) * frame, c.status, s.status if s else "removed"))
                break
            st = rel_state(w)
            if st in seen:
                cycle = (seen[st], i - seen[st])
                break
            seen[st] = i
        states = len(seen)
        if any(e[0] == "disconnect" for e in w.handler_log):
            flag("idle-stays-up", "the server disconnected an idle client", "")
        g = gaps(w, t0 + int(1.0 / frame))
        bound = ka + max(frame, send_tick(frame)) + EPS
        for k, arr in g.items():
            if arr and max(arr) > bound:
                flag("keep-alive-gap", "an idle endpoint stays silent longer than keep-alive + one send tick (%s)" % ("server" if k == "s" else "client"),
                     "%s: max gap %.5f s, keep-alive %.3f, frame %.5f, bound %.5f" % (k, max(arr), ka, frame, bound))
            if not arr:
                flag("keep-alive-gap", "an idle endpoint never sends anything", k)
    finally:
        w.close()
    return states, cycle, viols, (ka, tconn, frame, lat)


def jitter_scenario(params, ch):
    ka, frame = params
    w = World(dt=frame, chooser=ch, server_cfg={"setKeepAliveInterval": ka, "setConnectionTimeout": 1.0}, start_time=1024.0)
    try:
        w.run_until_connected(limit=int(3.0 / frame) + 40)
        w.clients[0].client.setKeepAliveInterval(ka)
        w.run(int(0.5 / frame))
        t0 = w.tickno
        for i in range(10):
            k = ch.choose("frame-length", [("frame x1", 0), ("frame x2", 0)])
            w.tick(dt=frame * (k + 1))
        w.run(int(0.6 / frame))
        ch.steps = w.tickno
        c, s = w.clients[0].conn, w.server_conn(0)
        ok = s is not None and c.status == ConnectionStatus.CONNECTED and s.status == ConnectionStatus.CONNECTED
        if not ok:
            ch.flag("idle-stays-up", "an idle connection does not survive frame jitter", "client %s server %s" % (c.status, s.status if s else None))
        g = gaps(w, t0)
        bound = ka + 2 * max(frame, send_tick(frame)) + EPS   # a send tick may be a doubled frame here
        worst = max([max(a) for a in g.values() if a] + [0])
        if worst > bound:
            ch.flag("keep-alive-gap", "under frame jitter an idle endpoint stays silent longer than keep-alive + one (doubled) send tick", "max gap %.5f bound %.5f" % (worst, bound))
        ch.outcome = (ok, round(worst / frame))
    finally:
        w.close()


def cut_work(arg):
    ka, tconn, frame, phase, direction = arg
    viols = {}
    wit = {"part": "cut", "keep_alive": ka, "connection_timeout": tconn, "frame": frame, "phase": phase, "direction": direction}

    def flag(oracle, sig, msg):
        viols.setdefault((oracle, sig), [0, wit, msg])[0] += 1

    rec = {}

    def on_disc(w, client):
        rec["t"] = w.vt.now
        rec["last_recv"] = client.last_recv_time
    w = World(dt=frame, server_cfg={"setKeepAliveInterval": ka, "setConnectionTimeout": tconn}, start_time=1024.0)
    w.handler_hooks["disconnect"] = on_disc
    outcome = None
    try:
        w.run_until_connected(limit=int(3.0 / frame) + 40)
        w.run(int(0.4 / frame) + phase)
        w.start_blackout(direction, 10 ** 9)
        dropped_at = None
        c = w.clients[0].conn
        # one-directional cut towards the server: the client only goes silent-less after the server dropped it
        horizon = (tconn + 5.0 + 1.5) if direction == "c2s" else (max(tconn, 5.0) + 1.5)
        for i in range(int(horizon / frame)):
            w.tick()
            if dropped_at is None and c.status == ConnectionStatus.DROPPED:
                dropped_at = (w.vt.now, c.last_recv_time)
            if "t" in rec and dropped_at is not None:
                break
        expect_server = direction in ("both", "c2s")
        expect_client = direction in ("both", "s2c") or expect_server  # after the server dropped the client it goes silent too
        if expect_server:
            if "t" not in rec:
                flag("server-timeout", "the server never drops a client that went silent", "no disconnect event within %.1f s" % (tconn + 1.5))
            else:
                late = rec["t"] - rec["last_recv"]
                if late < tconn - EPS:
                    flag("server-timeout", "the server drops a silent client before the connection timeout", "%.4f s after the last receipt, timeout %.2f" % (late, tconn))
                elif late > tconn + frame + EPS:
                    flag("server-timeout", "the server drops a silent client later than one tick after the connection timeout", "%.4f s after the last receipt, timeout %.2f frame %.4f" % (late, tconn, frame))
        if expect_client:
            if dropped_at is None:
                flag("client-dropped", "the client never reports DROPPED after the server went silent", "status %s" % c.status)
            else:
                late = dropped_at[0] - dropped_at[1]
                if late <= 5.0 - EPS:
                    flag("client-dropped", "the client reports DROPPED earlier than 5 s after the last receipt", "%.4f s" % late)
                elif late > 5.0 + frame + EPS:
                    flag("client-dropped", "the client reports DROPPED later than one frame after 5 s", "%.4f s (frame %.4f)" % (late, frame))
        outcome = (round((rec.get("t", 0) - rec.get("last_recv", 0)) / frame), dropped_at is not None)
    finally:
        w.close()
    return outcome, viols


def kick_work(arg):
    """the SERVER closes the session (a handler kicks the client); the client learns it (DISCONNECTING) and the server
    is silent from then on: the client still reports DROPPED 5 s after the last datagram it accepted"""
    frame, wait = arg
    viols = {}
    wit = {"part": "kick", "arg": list(arg)}

    def flag(oracle, sig, msg):
        viols.setdefault((oracle, sig), [0, wit, msg])[0] += 1
    w = World(dt=frame, start_time=1024.0)
    try:
        w.run_until_connected(limit=int(3.0 / frame))
        w.run(int(0.3 / frame) + wait)
        c = w.clients[0].conn
        w.server_conn(0).disconnect()
        w.run(int(0.3 / frame))
        st0 = c.status
        dropped_at = None
        for i in range(int(6.5 / frame)):
            w.tick()
            if c.status == ConnectionStatus.DROPPED and dropped_at is None:
                dropped_at = (w.vt.now, c.last_recv_time)
                break
        if st0 in (ConnectionStatus.DISCONNECTING, ConnectionStatus.CONNECTED, ConnectionStatus.DISCONNECTED) and c.last_recv_time > 0:
            if dropped_at is None:
                flag("client-dropped", "after the server closed the session and went silent the client never reports DROPPED", "status %s (was %s right after the kick), last receipt %.3f s ago" % (c.status, st0, w.vt.now - c.last_recv_time))
            else:
                late = dropped_at[0] - dropped_at[1]
                if late <= 5.0 - EPS or late > 5.0 + frame + EPS:
                    flag("client-dropped", "after a server-side close the client reports DROPPED at the wrong time", "%.4f s after the last receipt" % late)
    finally:
        w.close()
    return tuple(arg), viols


def emission_work(arg):
    """'each side emits a datagram at least once per keep-alive interval plus one send tick' when the acks stay away for a
    long time although nobody is dead: a peer with a much longer keep-alive interval, or a one-way outage shorter than
    the 5 s DROPPED rule, with a long message timeout (many un-acked datagrams pile up)"""
    c_ka, c_mt, s_ka, s_tconn, frame, outage = arg
    viols = {}
    wit = {"part": "emission", "arg": list(arg)}

    def flag(oracle, sig, msg):
        viols.setdefault((oracle, sig), [0, wit, msg])[0] += 1
    w = World(dt=frame, autoconnect=False, start_time=1024.0, server_cfg={"setKeepAliveInterval": s_ka, "setConnectionTimeout": s_tconn, "setMessageTimeout": c_mt})
    try:
        def pre(cl):
            cl.setKeepAliveInterval(c_ka)
            cl.setMessageTimeout(c_mt)
        ce = w.client_connect(0, before_connect=pre)
        w.run_until_connected(limit=int(3.0 / frame))
        w.run(int(0.3 / frame))
        t0 = w.tickno
        if outage:
            w.start_blackout(outage[0], int(outage[1] / frame))
        w.run(int((outage[1] if outage else 4.0) / frame) + int(1.0 / frame))
        g = gaps(w, t0)
        for side, ka in (("c", c_ka), ("s", s_ka)):
            bound = ka + max(frame, send_tick(frame)) + frame + EPS
            if g[side] and max(g[side]) > bound:
                flag("keep-alive", "an endpoint of a live link stays silent for longer than its keep-alive interval plus a send tick while many of its datagrams are un-acked",
                     "%s: longest gap %.4f s, keep-alive %.2f (message timeout %.1f, peer keep-alive %.2f, outage %r)" % (
                         "client" if side == "c" else "server", max(g[side]), ka, c_mt, s_ka if side == "c" else c_ka, outage))
        if not ce.client.connected() or w.clients[0].addr not in w.ctxt.connections:
            flag("idle", "a live link (outage shorter than every timeout) goes down", "client %s, server side %s" % (
                w.clients[0].conn.status if w.clients[0].conn else None, "present" if w.clients[0].addr in w.ctxt.connections else "gone"))
    finally:
        w.close()
    return tuple(map(str, arg)), viols


def traffic_work(arg):
    """'each side emits a datagram at least once per keep-alive interval plus one send tick, and neither side times out' on a
    healthy link that is NOT idle: application traffic in one direction only, in both, or alternating; denser and sparser than
    the keep-alive interval; unretried and guaranteed; single datagram and fragmented.  6.5 s per case (> every timeout)."""
    who, period, size, retry, frame, ka = arg
    viols = {}
    wit = {"part": "traffic", "arg": list(arg)}

    def flag(oracle, sig, msg):
        viols.setdefault((oracle, sig), [0, wit, msg])[0] += 1
    from mpgameserver.connection import RetryMode
    w = World(dt=frame, autoconnect=False, start_time=1024.0, server_cfg={"setKeepAliveInterval": ka})
    try:
        ce = w.client_connect(0, before_connect=lambda cl: cl.setKeepAliveInterval(ka))
        w.run_until_connected(limit=int(3.0 / frame))
        w.run(int(0.3 / frame))
        t0 = w.tickno
        n = 0
        for t in range(int(6.5 / frame)):
            if t % period == 0:
                n += 1
                data = (b"%06d" % n) * max(1, size // 6)
                senders = {"c": "c", "s": "s", "both": "cs", "alt": "c" if n % 2 else "s"}[who]
                if "c" in senders and ce.client.connected():
                    ce.client.send(data, retry=(RetryMode.RETRY_ON_TIMEOUT if retry else RetryMode.NONE).value)
                sc = w.server_conn(0)
                if "s" in senders and sc is not None:
                    sc.send(data, retry=RetryMode.RETRY_ON_TIMEOUT if retry else RetryMode.NONE)
            w.tick()
        g = gaps(w, t0)
        for side in ("c", "s"):
            bound = ka + max(frame, send_tick(frame)) + frame + EPS
            if not g[side] or max(g[side]) > bound:
                flag("keep-alive", "an endpoint of a live link carrying application traffic stays silent for longer than its keep-alive interval plus a send tick",
                     "%s: longest gap %s, keep-alive %.2f; traffic: sender(s) %s, one %d-byte %s message every %d frame(s) of %.4f s" % (
                         "client" if side == "c" else "server", ("%.4f s" % max(g[side])) if g[side] else "(nothing sent at all)", ka, who, size,
                         "guaranteed" if retry else "unretried", period, frame))
        if not ce.client.connected() or w.clients[0].addr not in w.ctxt.connections:
            flag("idle", "a live link carrying application traffic goes down", "client %s, server side %s; traffic: sender(s) %s every %d frame(s), %d bytes" % (
                w.clients[0].conn.status if w.clients[0].conn else None, "present" if w.clients[0].addr in w.ctxt.connections else "gone", who, period, size))
    finally:
        w.close()
    return tuple(map(str, arg)), viols


def multi_work(arg):
    """timeouts and keep-alives are per CONNECTION: several clients of one server with different activity.
    scen "cut-one": clients A and B idle (or B chatty), A's link is cut both ways - the server drops A (and only A) after the
    connection timeout, A reports DROPPED, B stays.  scen "half-open": A and B idle next to a peer C whose handshake never
    completes, with connection timeout < temp-connection timeout - A and B stay.  scen "late": B joins 3 s after A."""
    scen, frame, t_conn, chatty = arg
    viols = {}
    wit = {"part": "multi", "arg": list(arg)}

    def flag(oracle, sig, msg):
        viols.setdefault((oracle, sig), [0, wit, msg])[0] += 1
    n = 3 if scen == "half-open" else 2
    w = World(n_clients=n, dt=frame, autoconnect=False, start_time=1024.0, server_cfg={"setConnectionTimeout": t_conn})
    try:
        A, B = w.clients[0], w.clients[1]
        w.client_connect(0)
        if scen != "late":
            w.client_connect(1)

        def both_up(w_):
            return all(ce.client is not None and ce.client.connected() and ce.addr in w_.ctxt.connections for ce in (A, B) if ce.client is not None)
        if not w.run(int(3.0 / frame), both_up):
            raise RuntimeError("HARNESS-ERROR: honest handshakes did not complete")
        if scen == "late":
            w.run(int(3.0 / frame))
            w.client_connect(1)
            if not w.run(int(3.0 / frame), both_up):
                flag("idle", "a second client cannot connect while the first one idles", "client B status %s" % (B.conn.status if B.conn else None))
                return tuple(map(str, arg)), viols
        w.run(int(0.5 / frame))
        k = [0]

        def chat():
            if chatty:
                k[0] += 1
                B.client.send(b"chat%06d" % k[0], retry=0)
        if scen in ("cut-one", "late"):
            victim, other = (A, B) if scen == "cut-one" else (B, A)
            w.drop_rule = lambda w_, d: d.client_addr == victim.addr
            t_cut = w.vt.now
            gone_at = None
            dropped_at = None
            for _ in range(int((max(t_conn, 5.0) + 1.5) / frame)):
                chat()
                w.tick()
                if gone_at is None and victim.addr not in w.ctxt.connections:
                    gone_at = w.vt.now - t_cut
                if dropped_at is None and victim.conn is not None and victim.conn.status == ConnectionStatus.DROPPED:
                    dropped_at = w.vt.now - t_cut
            slack = 0.1 + send_tick(frame) + 3 * frame
            if gone_at is None or gone_at > t_conn + slack:
                flag("timeout", "the server does not drop a client whose link is cut while ANOTHER client of the same server stays active",
                     "%s: silent client %s after %.2f s (connection timeout %.2f s); the other client %s" % (
                         scen, "still pooled" if gone_at is None else "dropped only after %.2f s" % gone_at, w.vt.now - t_cut, t_conn, "streams messages" if chatty else "idles"))
            elif gone_at < t_conn - 0.1 - slack:
                flag("timeout", "the server drops a silent client before the connection timeout", "%s: after %.2f s (timeout %.2f)" % (scen, gone_at, t_conn))
            if dropped_at is None or dropped_at > 5.0 + slack:
                flag("timeout", "a client whose link is cut does not report DROPPED after 5 s", "%s: %s" % (scen, dropped_at))
            if other.addr not in w.ctxt.connections or not other.client.connected():
                flag("idle", "cutting ONE client's link takes another client of the same server down", "%s: the other client: server side %s, client side %s" % (
                    scen, "present" if other.addr in w.ctxt.connections else "gone", other.conn.status))
        else:
            C = w.clients[2]
            w.drop_rule = lambda w_, d: d.client_addr == C.addr and d.src == "s"     # C never hears the answer: half-open, then silent
            w.client_connect(2)
            for _ in range(int(4.0 / frame)):
                chat()
                w.tick()
            for name, ce in (("A", A), ("B", B)):
                if ce.addr not in w.ctxt.connections or not ce.client.connected():
                    flag("idle", "an idle client of a working link goes down next to an unrelated peer whose handshake never completes",
                         "client %s: server side %s, client side %s (connection timeout %.2f s, temp timeout 2 s)" % (
                             name, "present" if ce.addr in w.ctxt.connections else "gone", ce.conn.status, t_conn))
    finally:
        w.close()
    return tuple(map(str, arg)), viols


def connect_work(arg):
    timeout, with_cb, frame, set_when = arg
    viols = {}
    wit = {"part": "connect", "timeout": timeout, "callback": with_cb, "frame": frame, "set_when": set_when}

    def flag(oracle, sig, msg):
        viols.setdefault((oracle, sig), [0, wit, msg])[0] += 1
    w = World(dt=frame, connect_callback=with_cb, autoconnect=False, start_time=1024.0)
    try:
        w.start_blackout("s2c", 10 ** 9)
        exc = []

        def before(cl):
            try:
                cl.setConnectionTimeout(timeout)
            except Exception as e:
                exc.append(e)
        w.client_connect(0, before_connect=before if set_when == "before" else None)
        if set_when == "during":
            before(w.clients[0].client)   # the attempt is already under way
        t_hello = w.vt.now
        ce = w.clients[0]
        n = int((timeout + 1.0) / frame)
        for i in range(n):
            w.tick()
        st = ce.conn.status
        if exc:
            flag("setter-raises", "setConnectionTimeout %s connect raises %s" % ("before" if set_when == "before" else "right after", type(exc[0]).__name__), repr(exc[0]))
        if st != ConnectionStatus.DISCONNECTED:
            flag("connect-timeout", "an unanswered connect attempt does not end DISCONNECTED (%s a connect callback)" % ("with" if with_cb else "without"),
                 "status %s %.2f s after the hello, configured timeout %.2f" % (st, w.vt.now - t_hello, timeout))
        if with_cb:
            calls = ce.connect_cb
            if len(calls) != 1 or calls[0][1] is not False:
                flag("connect-timeout", "the connect callback of an unanswered attempt is not called exactly once with False", "calls %r" % calls)
            elif calls[0][0] - t_hello < timeout - EPS:
                flag("connect-timeout", "the connect callback reports failure before the configured timeout", "%.4f s, timeout %.2f" % (calls[0][0] - t_hello, timeout))
            elif calls[0][0] - t_hello > timeout + 2 * frame + EPS:
                flag("connect-timeout", "the connect callback reports failure later than the configured timeout (setting has no effect?)", "%.4f s, timeout %.2f" % (calls[0][0] - t_hello, timeout))
        if w.exceptions:
            flag("exception", "exception during an unanswered connect attempt", repr(w.exceptions[:2]))
        return (st.value, len(ce.connect_cb)), viols
    finally:
        w.close()


CLIENT_SETTERS = ("setKeepAliveInterval", "setConnectionTimeout", "setMessageTimeout")
VALUES = {"setKeepAliveInterval": 0.5, "setConnectionTimeout": 0.75, "setMessageTimeout": 0.25}


def client_setter_work(arg):
    before, after, frame = arg[:3]
    during = arg[3] if len(arg) > 3 else ()
    VALUES = dict(globals()["VALUES"])
    if len(arg) > 4 and arg[4]:
        VALUES.update(dict(arg[4]))
    viols = {}
    wit = {"part": "client-setters", "before_connect": list(before), "during_handshake": list(during), "after_connect": list(after), "values": VALUES}

    def flag(oracle, sig, msg):
        viols.setdefault((oracle, sig), [0, wit, msg])[0] += 1
    w = World(dt=frame, autoconnect=False, start_time=1024.0)
    try:
        def pre(cl):
            for name in before:
                try:
                    getattr(cl, name)(VALUES[name])
                except Exception as e:
                    flag("setter-raises", "%s before connect raises %s" % (name, type(e).__name__), repr(e))
        ce = w.client_connect(0, before_connect=pre)
        # after connect() but before the handshake has completed (status CONNECTING)
        for name in during:
            try:
                getattr(ce.client, name)(VALUES[name])
            except Exception as e:
                flag("setter-raises", "%s during the handshake raises %s" % (name, type(e).__name__), repr(e))
        w.run_until_connected(limit=int(3.0 / frame))
        for name in after:
            try:
                getattr(ce.client, name)(VALUES[name])
            except Exception as e:
                flag("setter-raises", "%s after connect raises %s" % (name, type(e).__name__), repr(e))
        applied = set(before) | set(after) | set(during)
        if len(arg) > 5 and arg[5]:
            # the settings outlive the session: disconnect, connect() again on the same UdpClient, check in session 2
            wit["second_session"] = True
            ce.client.disconnect()
            w.run(12)
            ce.client.forceDisconnect()
            w.run(2)
            w.client_reconnect(0)
            w.run_until_connected(limit=int(3.0 / frame))
        w.run(int(1.2 / frame))
        t0 = w.tickno - int(0.7 / frame)
        g = gaps(w, t0)["c"]
        # keep-alive: the observed idle gap of the client matches the configured (or default 0.1) interval
        ka = VALUES["setKeepAliveInterval"] if "setKeepAliveInterval" in applied else 0.1
        w.run(int(2 * ka / frame) + 4)
        g = gaps(w, t0)["c"]
        lo, hi = ka - EPS, ka + max(frame, send_tick(frame)) + EPS
        if not g or not (lo <= max(g) <= hi):
            when = "before connect" if "setKeepAliveInterval" in before else ("after connect" if "setKeepAliveInterval" in after else ("during the handshake" if "setKeepAliveInterval" in during else "never (default)"))
            flag("setter-effect", "setKeepAliveInterval called %s has no effect on the client's keep-alive period" % when,
                 "configured %.2f, observed idle gaps up to %s" % (ka, ("%.4f" % max(g)) if g else "none"))
        # message timeout: an unretried send over a cut link fails after the configured timeout
        mt = VALUES["setMessageTimeout"] if "setMessageTimeout" in applied else 1.0
        w.start_blackout("both", 10 ** 9)
        res = []
        t_send = w.vt.now
        ce.client.send(payload(1, 10), retry=0, callback=lambda ok: res.append((w.vt.now, ok)))
        w.run(int((mt + 0.6) / frame))
        if len(res) != 1 or res[0][1] is not False:
            flag("setter-effect", "message timeout: callback of a send over a cut link not called once with False", repr(res))
        else:
            late = res[0][0] - t_send
            if not (mt - EPS <= late <= mt + 3 * frame + send_tick(frame) + EPS):
                when = "before connect" if "setMessageTimeout" in before else ("after connect" if "setMessageTimeout" in after else ("during the handshake" if "setMessageTimeout" in during else "never (default)"))
                flag("setter-effect", "setMessageTimeout called %s has no effect" % when, "configured %.2f, callback(False) after %.4f s" % (mt, late))
        if w.exceptions:
            flag("exception", "exception after calling setters", repr(w.exceptions[:2]))
    finally:
        w.close()
    return (tuple(before), tuple(during), tuple(after)), viols


def ka_change_work(arg):
    """the keep-alive interval is CHANGED on a connected, idle client (and back): the very next gap already obeys the
    new value - no datagram may be later than max(last emission + new interval, time of the call) + one send tick"""
    ka0, ka1, frame, idle_before = arg
    viols = {}
    wit = {"part": "ka-change", "arg": list(arg)}

    def flag(oracle, sig, msg):
        viols.setdefault((oracle, sig), [0, wit, msg])[0] += 1
    w = World(dt=frame, autoconnect=False, start_time=1024.0, server_cfg={"setConnectionTimeout": 30.0})
    try:
        ce = w.client_connect(0, before_connect=lambda cl: cl.setKeepAliveInterval(ka0))
        w.run_until_connected(limit=int(3.0 / frame))
        w.run(int(idle_before / frame))
        mine = [d for d in w.all_sent if d.src == "c0"]
        last = mine[-1].sent_time if mine else w.vt.now
        t_set = w.vt.now
        try:
            ce.client.setKeepAliveInterval(ka1)
        except Exception as e:
            flag("setter-raises", "setKeepAliveInterval on a connected client raises %s" % type(e).__name__, repr(e))
        n0 = len(w.all_sent)
        w.run(int((max(ka0, ka1) + 0.5) / frame))
        nxt = next((d.sent_time for d in w.all_sent[n0:] if d.src == "c0"), None)
        bound = max(last + ka1, t_set) + max(frame, send_tick(frame)) + frame + EPS
        if nxt is None or nxt > bound:
            flag("setter-effect", "setKeepAliveInterval on a connected idle client only takes effect after the next datagram (%s)" % ("interval lowered" if ka1 < ka0 else "interval raised"),
                 "interval %.2f -> %.2f at t=%.4f, last datagram at %.4f, next at %s, bound %.4f" % (ka0, ka1, t_set, last, nxt, bound))
        if ka1 > ka0 and nxt is not None and nxt < last + ka1 - EPS and nxt > t_set + frame:
            pass   # earlier than necessary is allowed
        if not ce.client.connected() or w.clients[0].addr not in w.ctxt.connections:
            flag("idle", "the link does not survive a change of the keep-alive interval", "client %s, server side %s" % (
                w.clients[0].conn.status if w.clients[0].conn else None, "present" if w.clients[0].addr in w.ctxt.connections else "gone"))
    finally:
        w.close()
    return tuple(arg), viols


def server_setter_work(arg):
    order, frame = arg[:2]
    vals = {"setKeepAliveInterval": 0.5, "setConnectionTimeout": 1.5, "setTempConnectionTimeout": 0.5, "setMessageTimeout": 0.25, "setInterval": frame}
    if len(arg) > 2 and arg[2]:
        vals.update(arg[2])
    viols = {}
    wit = {"part": "server-setters", "order": list(order), "values": {k: v for k, v in vals.items() if k != "setInterval"}}

    def flag(oracle, sig, msg):
        viols.setdefault((oracle, sig), [0, wit, msg])[0] += 1
    # World applies server_cfg in dict order before the loop handles any datagram
    cfg = {}
    for name in order:
        cfg[name] = vals[name]
    rec = {}
    try:
        w = World(dt=frame, server_cfg=cfg, start_time=1024.0, n_clients=2, autoconnect=False)
    except Exception as e:
        return tuple(order), {("setter-raises", "a ServerContext setter raises %s" % type(e).__name__): [1, wit, repr(e)]}
    try:
        w.handler_hooks["disconnect"] = lambda w_, client: rec.setdefault("disc", (w_.vt.now, client.last_recv_time))
        w.client_connect(0)
        w.run_until_connected_one = None
        for _ in range(int(3.0 / frame)):
            w.tick()
            if w.clients[0].addr in w.ctxt.connections and w.clients[0].client.connected():
                break
        ka = vals["setKeepAliveInterval"]
        w.run(int((3 * ka + 0.1) / frame))
        g = gaps(w, w.tickno - int((2 * ka + 0.1) / frame))["s"]
        if not g or not (ka - EPS <= max(g) <= ka + max(frame, send_tick(frame)) + EPS):
            flag("setter-effect", "ServerContext.setKeepAliveInterval has no effect on the server's keep-alive period", "configured %.2f observed %s" % (ka, ("%.4f" % max(g)) if g else None))
        # temp timeout: second client says hello and goes silent
        w.client_connect(1)
        w.tick()
        w.tick()
        w.clients[1].client.forceDisconnect()
        t_in = None
        t_out = None
        for _ in range(int((vals["setTempConnectionTimeout"] + 1.0) / frame)):
            w.tick()
            present = w.clients[1].addr in w.ctxt.temp_connections
            if present and t_in is None:
                t_in = w.vt.now
            if t_in is not None and not present and t_out is None:
                t_out = w.vt.now
        tt = vals["setTempConnectionTimeout"]
        if t_in is None or t_out is None or not (tt - 3 * frame - EPS <= t_out - t_in <= tt + 2 * frame + EPS):
            flag("setter-effect", "ServerContext.setTempConnectionTimeout has no effect", "entry seen for %s s, configured %.2f" % (None if t_in is None or t_out is None else round(t_out - t_in, 4), tt))
        # message timeout + connection timeout under a cut
        sc = w.server_conn(0)
        res = []
        w.start_blackout("both", 10 ** 9)
        t_send = w.vt.now
        sc.send(payload(2, 10), callback=lambda ok: res.append((w.vt.now, ok)))
        w.run(int((max(vals["setMessageTimeout"], vals["setConnectionTimeout"]) + 0.7) / frame))
        mt = vals["setMessageTimeout"]
        if len(res) != 1 or res[0][1] is not False or not (mt - EPS <= res[0][0] - t_send <= mt + 3 * frame + send_tick(frame) + EPS):
            flag("setter-effect", "ServerContext.setMessageTimeout has no effect on server side sends", "configured %.2f, callbacks %r (sent at %.4f)" % (mt, res, t_send))
        ct = vals["setConnectionTimeout"]
        if "disc" not in rec or not (ct - EPS <= rec["disc"][0] - rec["disc"][1] <= ct + frame + EPS):
            flag("setter-effect", "ServerContext.setConnectionTimeout has no effect", "configured %.2f, %s" % (ct, ("disconnect %.4f s after last receipt" % (rec["disc"][0] - rec["disc"][1])) if "disc" in rec else "no disconnect"))
    finally:
        w.close()
    return tuple(order), viols


def run(tier, seed):
    rep = core.Report()
    acc = {}

    def fold(viols):
        for key, (cnt, wit, msg) in viols.items():
            if key not in acc:
                acc[key] = [0, wit, msg]
            acc[key][0] += cnt

    kas = [0.05, 0.1, 0.5, 1.0, 2.0]
    frames = [1.0 / 128, 1.0 / 64, 1.0 / 60, 1.0 / 32, 1.0 / 16]
    idle_jobs = []
    for ka in kas:
        for tconn in (1.0, 5.0):
            if ka >= tconn:
                continue
            for frame in frames:
                if tier == "quick" and (frame == 1.0 / 128 and ka > 0.5):
                    continue
                dyadic = abs(frame * 1024 - round(frame * 1024)) < 1e-12
                horizon = (30.0 if tier == "quick" else 120.0) if dyadic else (20.0 if tier == "quick" else 60.0)
                idle_jobs.append((ka, tconn, frame, horizon))
    # owners that call update ~1000 times per second (dyadic 1/1024 s frames close into a cycle, 1 ms frames run to a horizon):
    # only the protocol's own send-rate cap and keep-alive timer pace the traffic
    for ka, tconn, frame in ((0.1, 1.0, 1.0 / 1024), (0.05, 1.0, 1.0 / 1024), (0.1, 5.0, 0.001), (0.5, 1.0, 0.001)):
        idle_jobs.append((ka, tconn, frame, 8.0 if tier == "quick" else 30.0))
    # one-way delays above the keep-alive interval (but round trip below every timeout): 0.31 s and 0.19 s
    for ka, tconn, frame, lat in ((0.1, 1.0, 1.0 / 64, 20), (0.05, 1.0, 1.0 / 64, 12), (0.1, 5.0, 1.0 / 32, 10), (0.5, 5.0, 1.0 / 64, 40)):
        idle_jobs.append((ka, tconn, frame, 30.0 if tier == "quick" else 120.0, lat))
    if seed:
        k = seed % len(idle_jobs)
        idle_jobs = idle_jobs[k:] + idle_jobs[:k]
    res = core.pmap("checks.c12", "idle_work", idle_jobs)
    idle_states = sum(r[0] for r in res)
    closed = [{"keep_alive": r[3][0], "timeout": r[3][1], "frame": r[3][2], "latency_ticks": r[3][3], "transient_ticks": r[1][0], "cycle_ticks": r[1][1]} for r in res if r[1]]
    open_rows = [{"keep_alive": r[3][0], "timeout": r[3][1], "frame": r[3][2], "latency_ticks": r[3][3]} for r in res if not r[1]]
    for r in res:
        fold(r[2])
    # jitter
    jit = [(ka, fr) for ka in (0.05, 0.1, 0.5) for fr in ((1.0 / 64, 1.0 / 32) if tier == "quick" else (1.0 / 128, 1.0 / 64, 1.0 / 60, 1.0 / 32))]
    st = explore.explore_all("checks.c12", "jitter_scenario", jit, 0, time_budget=(900 if tier == "quick" else 1800))
    sig_counts = getattr(st, "sig_counts", {})
    for v in st.violations:
        key = (v["oracle"], v["sig"])
        if key not in acc:
            acc[key] = [sig_counts.get(key, 1), {"part": "jitter", "params": v["params"], "choices": v["choices"]}, v["message"] + " | params=%r choices=%r" % (v["params"], v["choices"])]
    # cut
    cut_jobs = []
    for ka, tconn, frame in ((0.1, 1.0, 1.0 / 64), (0.1, 5.0, 1.0 / 64), (0.5, 1.0, 1.0 / 32), (0.05, 1.0, 1.0 / 60)) + (() if tier == "quick" else ((1.0, 5.0, 1.0 / 16), (0.1, 1.0, 1.0 / 128), (2.0, 5.0, 1.0 / 64))):
        period = int(round((ka + frame) / frame)) + 1
        for phase in range(period):
            for direction in ("both", "c2s", "s2c"):
                if tier == "quick" and direction != "both" and phase % 3:
                    continue
                cut_jobs.append((ka, tconn, frame, phase, direction))
    res = core.pmap("checks.c12", "cut_work", cut_jobs)
    cut_out = set(r[0] for r in res)
    for r in res:
        fold(r[1])
    # connect timeout
    con_jobs = [(t, cb, fr, when) for t in (0.25, 2.0, 0.75) for cb in (True, False) for fr in (1.0 / 64, 1.0 / 60) for when in ("before", "during")]
    res = core.pmap("checks.c12", "connect_work", con_jobs)
    for r in res:
        fold(r[1])
    # client setters: every split of every subset into (before, after), every order
    cs_jobs = []
    for n in range(0, 4):
        for subset in itertools.permutations(CLIENT_SETTERS, n):
            for phases in itertools.product((0, 1, 2), repeat=n):
                before = tuple(s for i, s in enumerate(subset) if phases[i] == 0)
                during = tuple(s for i, s in enumerate(subset) if phases[i] == 1)
                after = tuple(s for i, s in enumerate(subset) if phases[i] == 2)
                cs_jobs.append((before, after, 1.0 / 64, during))
    cs_jobs = sorted(set(cs_jobs))
    for vals in ((("setKeepAliveInterval", 2.0), ("setConnectionTimeout", 6.0), ("setMessageTimeout", 3.0)),
                 (("setKeepAliveInterval", 0.03), ("setConnectionTimeout", 0.3), ("setMessageTimeout", 0.05))):
        for names_ in (CLIENT_SETTERS, tuple(reversed(CLIENT_SETTERS))):
            cs_jobs.append((names_, (), 1.0 / 64, (), vals))
            cs_jobs.append(((), names_, 1.0 / 64, (), vals))
            cs_jobs.append(((), (), 1.0 / 64, names_, vals))
    for names_ in (CLIENT_SETTERS, tuple(reversed(CLIENT_SETTERS))):
        cs_jobs.append((names_, (), 1.0 / 64, (), None, True))
        cs_jobs.append(((), names_, 1.0 / 64, (), None, True))
        cs_jobs.append(((), (), 1.0 / 64, names_, None, True))
    res = core.pmap("checks.c12", "client_setter_work", cs_jobs)
    for r in res:
        fold(r[1])
    kick_jobs = [(1.0 / 64, 0), (1.0 / 64, 1), (1.0 / 50, 0), (1.0 / 60, 3)]
    for r in core.pmap("checks.c12", "kick_work", kick_jobs):
        fold(r[1])
    em_jobs = [(0.05, 4.0, 3.0, 4.0, 1.0 / 64, None), (0.1, 10.0, 0.1, 30.0, 1.0 / 64, ("s2c", 4.5)), (0.1, 10.0, 0.1, 30.0, 1.0 / 50, ("c2s", 4.5)),
               (0.05, 6.0, 0.05, 30.0, 1.0 / 64, ("s2c", 3.0)), (2.0, 1.0, 0.05, 30.0, 1.0 / 64, None)]
    for r in core.pmap("checks.c12", "emission_work", em_jobs):
        fold(r[1])
    tr_jobs = [(who, period, size, retry, fr, ka) for who in ("c", "s", "both", "alt") for period in (1, 2, 5, 9, 40) for size, retry in ((12, False), (12, True), (2500, True))
               for fr, ka in (((1.0 / 64, 0.1), (1.0 / 50, 0.1), (1.0 / 64, 0.5)) if tier == "quick" else ((1.0 / 64, 0.1), (1.0 / 60, 0.1), (1.0 / 50, 0.1), (1.0 / 64, 0.5), (1.0 / 64, 0.04), (1.0 / 30, 1.0)))]
    for r in core.pmap("checks.c12", "traffic_work", tr_jobs):
        fold(r[1])
    mu_jobs = [(scen, fr, tc, chatty) for scen in ("cut-one", "half-open", "late") for fr in ((1.0 / 64,) if tier == "quick" else (1.0 / 64, 1.0 / 50))
               for tc in (1.0, 3.0) for chatty in (False, True)]
    for r in core.pmap("checks.c12", "multi_work", mu_jobs):
        fold(r[1])
    kc_jobs = [(ka0, ka1, fr, idle) for ka0, ka1 in ((3.0, 0.1), (1.0, 0.25), (0.1, 1.0), (0.5, 0.05)) for fr in (1.0 / 64, 1.0 / 50) for idle in (0.3, 1.3)]
    for r in core.pmap("checks.c12", "ka_change_work", kc_jobs):
        fold(r[1])
    names = ["setKeepAliveInterval", "setConnectionTimeout", "setTempConnectionTimeout", "setMessageTimeout", "setInterval"]
    ss_jobs = [(o, 1.0 / 64) for o in (itertools.permutations(names) if tier == "thorough" else [tuple(names), tuple(reversed(names)), tuple(names[2:] + names[:2])])]
    big = {"setKeepAliveInterval": 2.0, "setConnectionTimeout": 7.5, "setTempConnectionTimeout": 3.5, "setMessageTimeout": 3.0}
    odd = {"setKeepAliveInterval": 0.03, "setConnectionTimeout": 0.4, "setTempConnectionTimeout": 0.1, "setMessageTimeout": 0.05}
    ss_jobs += [(tuple(names), 1.0 / 64, big), (tuple(reversed(names)), 1.0 / 64, big), (tuple(names), 1.0 / 64, odd), (tuple(reversed(names)), 1.0 / 50, odd)]
    res = core.pmap("checks.c12", "server_setter_work", ss_jobs)
    for r in res:
        fold(r[1])
    for (oracle, sig), (cnt, wit, msg) in sorted(acc.items()):
        rep.add_violation(core.Violation(oracle, sig, wit, "%s [%d cases]" % (msg[:400], cnt)))
    n_exec = len(idle_jobs) + st.executions + len(cut_jobs) + len(con_jobs) + len(cs_jobs) + len(ss_jobs) + len(kc_jobs) + len(em_jobs) + len(kick_jobs) + len(tr_jobs) + len(mu_jobs)
    rep.coverage = {
        "states": idle_states + st.points, "transitions": idle_states + st.steps, "traces_validated_against_impl": n_exec,
        "idle_configurations": len(idle_jobs), "idle_closed_cycles": len(closed), "idle_cycle_rows": closed[:40], "idle_horizon_only": open_rows,
        "jitter_executions": st.executions, "cut_cases": len(cut_jobs), "cut_outcomes": len(cut_out), "connect_cases": len(con_jobs),
        "client_setter_cases": len(cs_jobs), "server_setter_cases": len(ss_jobs), "keep_alive_change_cases": len(kc_jobs), "emission_under_missing_acks_cases": len(em_jobs), "application_traffic_cases": len(tr_jobs), "several_clients_cases": len(mu_jobs),
        "evaluations": n_exec, "distinct_nontrivial": len(closed) + len(cut_out) + len(st.outcomes) + len(cs_jobs),
        "rule": "idle: canonical state = ages + sequence numbers relative to the peer's window, per tick; a repeated state closes the graph (dyadic frames), otherwise a horizon is reported; "
                "jitter: all 2^10 sequences of 1x/2x frames; cut: every tick phase of one keep-alive period x {both, c2s, s2c}; setters: every subset x order x before / during-the-handshake / after split",
        "exhaustive": True,
        "samples": [{"idle": closed[:2]}, {"cut": {"keep_alive": 0.1, "timeout": 1.0, "frame": 0.015625, "phase": 3, "direction": "c2s"}},
                    {"client_setters": {"before": ["setMessageTimeout"], "after": ["setKeepAliveInterval", "setConnectionTimeout"]}}],
    }
    rep.assumptions = ["'one send tick' = the smallest multiple of the frame that exceeds send_interval (most lenient reading)",
                       "uniform frames in the idle part (jitter part: 1x/2x); relative-sequence hashing relies on C08 (decisions depend on sequence numbers only through diff)"]
    return rep


def replay(witness):
    part = witness.get("part")
    if part == "idle":
        r = idle_work((witness["keep_alive"], witness["connection_timeout"], witness["frame"], 30.0, witness.get("latency_ticks", 1)))
        v = r[2]
    elif part == "kick":
        v = kick_work(tuple(witness["arg"]))[1]
    elif part == "emission":
        a = witness["arg"]
        v = emission_work((a[0], a[1], a[2], a[3], a[4], tuple(a[5]) if a[5] else None))[1]
    elif part == "multi":
        v = multi_work(tuple(witness["arg"]))[1]
    elif part == "traffic":
        v = traffic_work(tuple(witness["arg"]))[1]
    elif part == "ka-change":
        v = ka_change_work(tuple(witness["arg"]))[1]
    elif part == "cut":
        v = cut_work((witness["keep_alive"], witness["connection_timeout"], witness["frame"], witness["phase"], witness["direction"]))[1]
    elif part == "connect":
        v = connect_work((witness["timeout"], witness["callback"], witness["frame"], witness.get("set_when", "before")))[1]
    elif part == "client-setters":
        v = client_setter_work((tuple(witness["before_connect"]), tuple(witness["after_connect"]), 1.0 / 64, tuple(witness.get("during_handshake", ())), tuple((witness.get("values") or {}).items()), bool(witness.get("second_session"))))[1]
    elif part == "server-setters":
        v = server_setter_work((tuple(witness["order"]), 1.0 / 64, witness.get("values")))[1]
    elif part == "jitter":
        ch = explore.replay_choices(jitter_scenario, tuple(witness["params"]), witness["choices"])
        return [core.Violation(o, s, witness, m) for o, s, m in ch.found]
    else:
        return []
    return [core.Violation(k[0], k[1], witness, x[2]) for k, x in v.items()]
