"""C06 - fragmentation and reassembly preserve bytes; nothing is fabricated.

 lengths  engine C: EVERY payload length 0..3P+20 (P = MAX_PAYLOAD_SIZE) for a
          set of MTUs x three contents (position dependent, all zero, header
          look-alike) through ConnectionBase.send -> message queue ->
          _recv_message on a second connection object; plus the
          fragmentation limit and limit+1
 orders   engine B: 2-3 messages (fragmented and small) turned into <= 6
          datagrams by the real packet builder; ALL permutations of arrival
          and every single duplication at a fresh receiver
 faults   engine A: two fragmented messages + small ones in flight on the
          full stack under <= 2 deviations (drop/dup/delay 2,8,70) and
          blackouts up to beyond the receiver-side expiry, every retry mode
"""
import itertools
import struct

from mc import core, explore, seams
from mc.world import World, open_datagram
from mc.pair import DeliveryMonitor, app_send, payload, quiescent

core.import_repo()
from mpgameserver.connection import (ConnectionBase, ConnectionStatus, Packet, PacketHeader, PacketType, RetryMode)  # noqa

PROPERTY = "C06"
LEVEL = "model_checking"

KEY = bytes(range(16, 32))


def caps(mtu):
    P = mtu - 28 - 20 - 16 - 2
    F = 1024 if P >= 1024 + 6 else P - 6
    return P, F


def contents(n, kind):
    if kind == "pos":
        return payload(9, n)
    if kind == "zero":
        return b"\x00" * n
    # every 6-byte window parses as a plausible fragment header (id 1, index 1, count 2)
    return (struct.pack(">HHH", 1, 1, 2) * (n // 6 + 1))[:n]


class Clock(object):
    def __init__(self):
        self.t = 100.0

    def __call__(self):
        return self.t


def pair(clock):
    a = ConnectionBase(False, ("a", 1))
    b = ConnectionBase(True, ("b", 2))
    for c in (a, b):
        c.clock = clock
        c.session_key_bytes = KEY
        c.status = ConnectionStatus.CONNECTED
    return a, b


# ---------------------------------------------------------------------------
# part 1: all lengths

def len_work_init(tier):
    global _TIER
    _TIER = tier


def len_work(arg):
    mtu, lo, hi = arg
    viols = {}
    total = 0
    nfrag = 0
    old = Packet.MTU
    vt = seams.VirtualTime(500.0)
    patches = seams.Patches()
    patches.set(seams.m_connection, "time", vt)
    Packet.setMTU(mtu)
    try:
        P, F = caps(mtu)
        if Packet.MAX_PAYLOAD_SIZE != P or Packet.MAX_FRAGMENT_SIZE != F:
            viols[("constants", "setMTU does not derive the documented capacities")] = [1, {"part": "lengths", "mtu": mtu, "length": 0, "content": "pos"},
                                                                                         "MTU %d: MAX_PAYLOAD_SIZE=%d (documented %d) MAX_FRAGMENT_SIZE=%d (%d)" % (mtu, Packet.MAX_PAYLOAD_SIZE, P, Packet.MAX_FRAGMENT_SIZE, F)]
        for n in range(lo, hi):
            for kind in ("pos", "zero", "hdr"):
                total += 1
                data = contents(n, kind)
                clock = Clock()
                a, b = pair(clock)
                wit = {"part": "lengths", "mtu": mtu, "length": n, "content": kind}

                def flag(oracle, sig, msg):
                    viols.setdefault((oracle, sig), [0, wit, msg])[0] += 1
                try:
                    a.send(data, RetryMode.NONE)
                except Exception as e:
                    flag("send-raises", "send raises %s for a length below the fragmentation limit" % type(e).__name__, "len %d mtu %d: %r" % (n, mtu, e))
                    continue
                msgs = list(a.outgoing_messages)
                types = [m.type for m in msgs]
                if n <= P:
                    if types != [PacketType.APP]:
                        flag("not-fragmented", "payload up to the single-datagram limit is fragmented / not queued as one message", "len %d (P=%d): %r" % (n, P, types))
                else:
                    nfrag += 1
                    if any(t != PacketType.APP_FRAGMENT for t in types) or len(types) < 2:
                        flag("fragmented", "payload above the single-datagram limit is not split into fragments", "len %d (P=%d): %d messages" % (n, P, len(types)))
                    if any(len(m.payload) > P for m in msgs):
                        flag("fragment-size", "a fragment is larger than one datagram can carry", "len %d mtu %d: fragment sizes %r (P=%d)" % (n, mtu, [len(m.payload) for m in msgs], P))
                try:
                    for m in msgs:
                        b._recv_message(m.type, m.seq, m.payload)
                except Exception as e:
                    flag("reassembly-raises", "reassembly raises %s" % type(e).__name__, "len %d mtu %d: %r" % (n, mtu, e))
                    continue
                got = [p for _, p in b.incoming_messages]
                if got != [data]:
                    what = "nothing delivered" if not got else ("%d messages delivered" % len(got) if len(got) != 1 else
                                                                  ("delivered length %d" % len(got[0]) if len(got[0]) != n else "content differs"))
                    flag("bytes", "in-order reassembly does not reproduce the payload (%s)" % what, "len %d mtu %d content %s: %s" % (n, mtu, kind, what))
    finally:
        Packet.setMTU(old)
        patches.undo()
    return total, nfrag, viols


def asym_work(arg):
    """the two hosts are configured with DIFFERENT MTUs (setMTU is a per-process setting; 'decrease if the network drops
    packets' on one side only), or the receiver's MTU changes while fragments are in flight: the message is split under the
    sender's setting and reassembled under the receiver's.  Only pairs whose datagrams fit the receiver's RECV_SIZE."""
    mtu_s, mtu_r = arg
    viols = {}
    total = 0
    old = Packet.MTU
    vt = seams.VirtualTime(500.0)
    patches = seams.Patches()
    patches.set(seams.m_connection, "time", vt)
    try:
        Ps, Fs = caps(mtu_s)
        Pr, Fr = caps(mtu_r)
        lengths = sorted({Ps + 1, Ps + 2, 2 * Fs - 1, 2 * Fs, 2 * Fs + 1, 3 * Fs + 100, 5000, 5 * Fs, 20000, 2 * Fr, 2 * Fr + 1, 3 * Fr, Pr + 1})
        for n in lengths:
            if n <= Ps:
                continue
            for order in ("in-order", "reversed", "last-first"):
                for kind in ("pos", "zero"):
                    total += 1
                    data = contents(n, kind)
                    Packet.setMTU(mtu_s)
                    clock = Clock()
                    a, b = pair(clock)
                    wit = {"part": "asym", "mtu_sender": mtu_s, "mtu_receiver": mtu_r, "length": n, "order": order, "content": kind}
                    try:
                        a.send(data, RetryMode.NONE)
                        msgs = list(a.outgoing_messages)
                        Packet.setMTU(mtu_r)
                        seq = msgs if order == "in-order" else (msgs[::-1] if order == "reversed" else [msgs[-1]] + msgs[:-1])
                        for m in seq:
                            b._recv_message(m.type, m.seq, m.payload)
                        got = [p for _, p in b.incoming_messages]
                    except Exception as e:
                        viols.setdefault(("reassembly-raises", "reassembly raises %s when the two ends use different MTUs" % type(e).__name__), [0, wit, "len %d sender MTU %d receiver MTU %d: %r" % (n, mtu_s, mtu_r, e)])[0] += 1
                        continue
                    if got != [data]:
                        what = "nothing delivered" if not got else ("%d messages" % len(got) if len(got) != 1 else ("delivered length %d" % len(got[0]) if len(got[0]) != n else "content differs"))
                        viols.setdefault(("bytes", "a message split under the sender's MTU is not reproduced by a receiver configured with another MTU (%s)" % ("longer/shorter" if "length" in what else what)),
                                         [0, wit, "len %d, sender MTU %d (fragments of %d), receiver MTU %d (fragment size %d), %s: %s" % (n, mtu_s, Fs, mtu_r, Fr, order, what)])[0] += 1
    finally:
        Packet.setMTU(old)
        patches.undo()
    return total, viols


def limit_case():
    viols = {}
    clock = Clock()
    a, b = pair(clock)
    limit = Packet.MAX_FRAGMENT_SIZE * Packet.MAX_FRAGMENTS
    n_eval = 0
    for n, must_raise in ((limit + 1, True), (limit + 1024, True), (limit, False)):
        n_eval += 1
        data = bytes(limit % 251 for _ in range(1)) * n
        a.outgoing_messages = []
        try:
            a.send(data, RetryMode.NONE)
            raised = None
        except ValueError as e:
            raised = e
        except Exception as e:
            raised = e
            viols[("limit", "payload above the limit raises %s, not a clean error" % type(e).__name__)] = [1, {"part": "limit", "length": n}, repr(e)]
        if must_raise:
            if raised is None or a.outgoing_messages:
                viols[("limit", "payload above the fragmentation limit is not refused (queued %d messages)" % len(a.outgoing_messages))] = [1, {"part": "limit", "length": n}, "len %d" % n]
        else:
            if raised is not None:
                viols[("limit", "payload of exactly the fragmentation limit is refused")] = [1, {"part": "limit", "length": n}, repr(raised)]
            else:
                for m in a.outgoing_messages:
                    b._recv_message(m.type, m.seq, m.payload)
                got = [p for _, p in b.incoming_messages]
                if got != [data]:
                    viols[("limit", "payload of exactly the fragmentation limit is not reproduced")] = [1, {"part": "limit", "length": n}, "%d fragments" % len(a.outgoing_messages)]
    return n_eval, viols


# ---------------------------------------------------------------------------
# part 2: all arrival orders

def order_cases():
    # (label, [(length, retry)])  -> at MTU 1500: 2600 = 3 fragments, 1700 = 2, 3300 = 4
    return [
        ("frag3", [(2600, "none")]),
        ("frag2+frag2", [(1700, "none"), (1800, "none")]),
        ("frag2+small+frag2", [(1700, "none"), (50, "none"), (1750, "none")]),
        ("small+frag3+small", [(10, "none"), (2600, "none"), (0, "none")]),
        ("frag4", [(3300, "none")]),
        ("frag2(best)+frag2", [(1700, "best"), (1900, "none")]),
        ("frag3 zero content", [(-2600, "none")]),
        ("frag2+frag2+frag2", [(1700, "none"), (1701, "none"), (1702, "none")]),
        ("frag4+frag2", [(3300, "none"), (1700, "none")]),
        ("frag3(best)+frag3", [(2600, "best"), (2601, "none")]),
    ]


def order_work(arg):
    label, msgs = arg
    viols = {}
    total = 0
    outcomes = set()
    clock = Clock()
    a, _ = pair(clock)
    sent = []
    for i, (n, retry) in enumerate(msgs):
        data = payload(i + 1, n) if n >= 0 else b"\x00" * (-n)
        sent.append(data)
        a.send(data, {"none": RetryMode.NONE, "best": RetryMode.BEST_EFFORT}[retry])
    dgrams = []
    for _ in range(12):
        clock.t += 1 / 50.0
        pkt = a._build_packet()
        if pkt is not None and pkt.hdr.pkt_type in (PacketType.APP, PacketType.APP_FRAGMENT):
            dgrams.append(a._encode_packet(pkt))
        if not a.outgoing_messages:
            break
    k = len(dgrams)
    wit0 = {"part": "orders", "case": label, "datagrams": k}
    if k > 7 or k < 1:
        return 0, 0, {("harness", "unexpected datagram count %d for %s" % (k, label)): [1, wit0, ""]}
    want = sorted(sent)

    def deliver(order):
        c2 = Clock()
        c2.t = clock.t
        _, b = pair(c2)
        for j in order:
            c2.t += 0.001
            d = dgrams[j]
            hdr = PacketHeader.from_bytes(True, d)
            b._recv_datagram(hdr, d)
        return sorted(p for _, p in b.incoming_messages)

    for perm in itertools.permutations(range(k)):
        total += 1
        try:
            got = deliver(perm)
        except Exception as e:
            viols.setdefault(("order-raises", "receiver raises %s for an arrival order" % type(e).__name__), [0, dict(wit0, order=list(perm)), repr(e)])[0] += 1
            continue
        outcomes.add((len(got),))
        if got != want:
            what = "lost" if len(got) < len(want) else ("extra" if len(got) > len(want) else "bytes differ")
            viols.setdefault(("order", "an arrival order of the fragments' datagrams does not reproduce the messages (%s)" % what), [0, dict(wit0, order=list(perm)), "order %r: got %d messages, sent %d" % (perm, len(got), len(want))])[0] += 1
        # every single duplication at every later position
        if k <= 5 or perm == tuple(range(k)) or perm == tuple(reversed(range(k))):
            for j in range(k):
                for pos in range(perm.index(j) + 1, k + 1):
                    total += 1
                    order = list(perm[:pos]) + [j] + list(perm[pos:])
                    got = deliver(order)
                    if got != want:
                        viols.setdefault(("duplicate", "a duplicated datagram changes what is delivered (%s)" % ("extra" if len(got) > len(want) else "lost/changed")),
                                         [0, dict(wit0, order=order), "order %r: got %d messages, sent %d" % (order, len(got), len(want))])[0] += 1
    return total, len(outcomes) + k, viols


# ---------------------------------------------------------------------------
# part 3: faults on the full stack

def scenario(params, ch):
    direction, msgs, blackout, order, latency = params
    mon = DeliveryMonitor(flag_delivery=True, flag_stale_window_duplicates=False)
    w = World(order=order, latency=latency, chooser=ch, monitors=[mon])
    sender = direction[0]
    recv = "s" if sender == "c" else "c"
    try:
        w.run_until_connected()
        w.run(2)
        w.fates = ["drop", "dup", "delay2", "delay8", "delay70"]
        sent = []
        for i, (n, retry) in enumerate(msgs):
            data = payload(i + 1, n) if n >= 0 else b"\x00" * (-n)
            sent.append((data, retry))
            e = app_send(w, mon, sender, data, retry)
            if e is not None:
                ch.flag("send-raises", "send raised %s" % type(e).__name__, repr(e))
        if blackout and blackout[0] == "idcollide":
            # message A (already queued above, unretried) loses its middle fragment and stays half reassembled; traffic
            # goes on (other fragmented messages arrive) for longer than the expiry of that context; then the sender's
            # fragment id counter comes round again (set directly: 65535 messages later) and message B gets A's id
            from mpgameserver.connection import SeqNum
            sc_ = w.clients[0].conn if sender == "c" else w.server_conn(0)
            a_id = int(sc_.seq_fragment)
            src = "s" if sender == "s" else "c0"
            w.fates = []

            def rule(w_, d):
                if d.src != src:
                    return False
                for seq, t, pl in (open_datagram(w_, d) or []):
                    if t == 7 and len(pl) >= 6:
                        fid, idx, cnt = struct.unpack(">HHH", pl[:6])
                        if fid == a_id and idx == 2 and not getattr(w_, "_a_done", False):
                            return True
                return False
            w.drop_rule = rule
            w.run(12)
            w._a_done = True
            for k in range(blackout[1]):
                filler = payload(40 + k, 1700)
                sent.append((filler, "none"))
                app_send(w, mon, sender, filler, "none")
                w.run(int(1.2 * 64))
            sc_.seq_fragment = SeqNum(a_id - 1 if a_id > 1 else 65535)
            b_msg = payload(77, len(sent[0][0]))
            sent.append((b_msg, "none"))
            app_send(w, mon, sender, b_msg, "none")
            w.run(40)
            if mon.delivered[recv].get(b_msg, 0) < 1:
                ch.flag("bytes", "a fragmented message that re-uses the fragment id of a long abandoned one is not delivered intact", "message B (%d bytes) not delivered; id %d" % (len(b_msg), a_id))
            blackout = None
            sent[0] = (sent[0][0], "lost-on-purpose")
        if blackout and blackout[0] == "hole+ack":
            # the full-size fragments are lost for a while, the small last fragment gets through but its acks are lost
            # too, and a burst of > 256 small messages moves the receiver's message window past it: later copies of
            # the received fragment are accepted as new
            _, start, ticks, thr, burst = blackout
            w.run(start)
            until = w.tickno + ticks
            src = "s" if sender == "s" else "c0"

            def rule(w_, d):
                # every datagram that carries a fragment other than the LAST of its message is lost for a while
                if w_.tickno >= until or d.src != src:
                    return False
                for seq, t, pl in (open_datagram(w_, d) or []):
                    if t == 7 and len(pl) >= 6:
                        fid, idx, cnt = struct.unpack(">HHH", pl[:6])
                        if idx != cnt:
                            return True
                return False
            w.drop_rule = rule
            w.start_blackout("s2c" if sender == "c" else "c2s", ticks)
            w.fates = []
            for k in range(burst):
                app_send(w, mon, sender, b"b%c%c" % (k % 251, k // 251), "none")
            blackout = (None, start, ticks)
        elif blackout:
            bdir, start, ticks = blackout
            w.run(start)
            w.start_blackout(bdir, ticks)
        w.run(8)
        w.fates = []
        w.run(90 + (blackout[2] if blackout else 0))
        w.run(300, quiescent)
        w.run(5)
        ch.steps = w.tickno
        lossless = w.fault_free
        delivered = mon.delivered[recv]
        missing = [len(d) for d, r in sent if delivered.get(d, 0) < 1]
        ch.outcome = (tuple(sorted(delivered.values())), len(missing))
        if lossless and missing:
            ch.flag("lossless-delivery", "without any fault a message was not delivered", "missing lengths %r" % missing)
        if w.exceptions:
            ch.flag("exception", "exception in %s: %s" % (w.exceptions[0][0], w.exceptions[0][1].split("(")[0]), repr(w.exceptions[:2]))
    finally:
        for v in mon.violations:
            ch.flag(*v)
        w.close()


class TwoClientMonitor(DeliveryMonitor):
    """per-connection attribution: what client k sent may only surface at the server under client k's object, what the
    server sent to client k only at client k"""

    def __init__(self):
        DeliveryMonitor.__init__(self, flag_delivery=False)
        self.up = {0: {}, 1: {}}     # client k -> {payload: count sent towards the server}
        self.down = {0: {}, 1: {}}   # server -> client k
        self.got_up = {0: {}, 1: {}}
        self.got_down = {0: {}, 1: {}}

    def on_app_message(self, w, end, seq, data):
        if end[0] == "s":
            obj = w._serial_objs[end[1]]
            k = next((ce.index for ce in w.clients if ce.addr == obj.addr), None)
            sent, got, who = self.up.get(k, {}), self.got_up.setdefault(k, {}), "server (as client %s)" % k
        else:
            k = end[1]
            sent, got, who = self.down[k], self.got_down[k], "client %d" % k
        got[data] = got.get(data, 0) + 1
        if data not in sent:
            other = 1 - k if k in (0, 1) else None
            crossed = other is not None and (data in self.up[other] or data in self.down[other])
            self.flag("fabricated", "a message surfaced on a connection whose peer never sent it (%s)" % ("it belongs to ANOTHER client's connection" if crossed else "nobody sent it"),
                      "%s was handed %d bytes %r..." % (who, len(data), data[:24]))
        elif got[data] > sent[data]:
            self.flag("at-most-once", "payload delivered more often than sent [two clients]", "%s: %r... x%d" % (who, data[:20], got[data]))


def two_client_scenario(params, ch):
    sizes, retry, order = params
    mon = TwoClientMonitor()
    w = World(n_clients=2, order=order, chooser=ch, monitors=[mon])
    try:
        w.run_until_connected()
        w.run(2)
        w.fates = ["drop", "dup", "delay2", "delay8"]
        from mc.pair import RETRY
        for k in (0, 1):
            for i, n in enumerate(sizes):
                up = payload(10 * (k + 1) + i, n, salt=k)
                down = payload(50 + 10 * (k + 1) + i, n + 7, salt=k)
                mon.up[k][up] = mon.up[k].get(up, 0) + 1
                mon.down[k][down] = mon.down[k].get(down, 0) + 1
                w.clients[k].client.send(up, retry=RETRY[retry].value)
                w.ctxt.connections[w.clients[k].addr].send(down, retry=RETRY[retry])
        w.run(10)
        w.fates = []
        w.run(150)
        ch.steps = w.tickno
        missing = 0
        for k in (0, 1):
            missing += sum(1 for d in mon.up[k] if mon.got_up[k].get(d, 0) < 1) + sum(1 for d in mon.down[k] if mon.got_down[k].get(d, 0) < 1)
        if w.fault_free and missing:
            ch.flag("lossless-delivery", "without any fault a message was not delivered [two clients]", "%d missing" % missing)
        ch.outcome = (missing,)
        if w.exceptions:
            ch.flag("exception", "exception in %s: %s" % (w.exceptions[0][0], w.exceptions[0][1].split("(")[0]), repr(w.exceptions[:2]))
    finally:
        for v in mon.violations:
            ch.flag(*v)
        w.close()


def fault_params(tier):
    out = []
    sets = [
        ((1700, "none"), (2600, "none"), (40, "none")),
        ((1700, "retry"), (1800, "retry")),
        ((2600, "best"), (30, "none"), (1700, "retry")),
        ((-2600, "retry"), (1700, "none")),
    ]
    blackouts = [None, ("data", 1, 20), ("data", 1, 140), ("data", 2, 200), ("ack", 0, 100)]
    cfgs = [("cs", 1)] if tier == "quick" else [("cs", 1), ("sc", 0), ("cs", 0)]
    for direction in ("c2s", "s2c"):
        d_dir, a_dir = ("c2s", "s2c") if direction == "c2s" else ("s2c", "c2s")
        for msgs in sets:
            for b in blackouts:
                if b is not None:
                    b = (d_dir if b[0] == "data" else a_dir, b[1], b[2])
                for order, latency in cfgs:
                    out.append((direction, msgs, b, order, latency))
        # (4 fillers 1.2 s apart: at least one fragment arrives after A's context has expired (1 + 3/2 s), as is
        # necessarily the case before a fragment id can come round again)
        out.append((direction, ((2600, "none"),), ("idcollide", 4), "cs", 1))
        out.append((direction, ((2100, "none"),), ("idcollide", 5), "cs", 1))
        for size, ticks in ((5000, 100), (2500, 100), (5000, 160)):
            if tier == "quick" and ticks == 160:
                continue
            out.append((direction, ((size, "retry"),), ("hole+ack", 2, ticks, 1000, 300), "cs", 1))
            out.append((direction, ((size, "best"), (40, "retry")), ("hole+ack", 2, ticks, 1000, 300), "cs", 1))
    return out


def run(tier, seed):
    rep = core.Report()
    acc = {}

    def fold(viols):
        for key, (cnt, wit, msg) in viols.items():
            if key not in acc:
                acc[key] = [0, wit, msg]
            acc[key][0] += cnt

    # part 1
    mtus = [512, 1095, 1096, 1500] if tier == "quick" else [512, 513, 600, 800, 1000, 1094, 1095, 1096, 1097, 1098, 1200, 1400, 1499, 1500]
    jobs = []
    for mtu in mtus:
        P, F = caps(mtu)
        top = 3 * P + 20
        step = 256
        for lo in range(0, top + 1, step):
            jobs.append((mtu, lo, min(top + 1, lo + step)))
    if seed:
        k = seed % len(jobs)
        jobs = jobs[k:] + jobs[:k]
    res = core.pmap("checks.c06", "len_work", jobs, initargs=(tier,))
    n_len = sum(r[0] for r in res)
    n_frag = sum(r[1] for r in res)
    for r in res:
        fold(r[2])
    n_lim, v = limit_case()
    fold(v)
    asym_pairs = [(1500, 1000), (1000, 1500), (512, 1500), (1095, 1096), (1096, 1095), (1000, 512)] + ([(600, 1500), (1500, 1200), (800, 1000), (1000, 800)] if tier == "thorough" else [])
    res_a = core.pmap("checks.c06", "asym_work", asym_pairs)
    n_asym = sum(r[0] for r in res_a)
    for r in res_a:
        fold(r[1])
    # part 2
    res = core.pmap("checks.c06", "order_work", order_cases())
    n_ord = sum(r[0] for r in res)
    s_ord = sum(r[1] for r in res)
    for r in res:
        fold(r[2])
    # part 3
    plist = fault_params(tier)
    st = explore.explore_all("checks.c06", "scenario", plist, 2, time_budget=(1000 if tier == "quick" else 3600))
    sig_counts = getattr(st, "sig_counts", {})
    for v in st.violations:
        key = (v["oracle"], v["sig"])
        if key not in acc:
            acc[key] = [sig_counts.get(key, 1), {"part": "faults", "params": v["params"], "choices": v["choices"], "labels": v["labels"]}, v["message"] + " | params=%r deviations=%r" % (v["params"], v["labels"])]
    tc_params = [(sizes, retry, order) for sizes in ((1700, 40), (2600,), (1700, 1800)) for retry in ("none", "retry") for order in (("cs",) if tier == "quick" else ("cs", "sc"))]
    st_tc = explore.explore_all("checks.c06", "two_client_scenario", tc_params, 1 if tier == "quick" else 2, time_budget=(900 if tier == "quick" else 1800))
    for v in st_tc.violations:
        key = (v["oracle"], v["sig"])
        if key not in acc:
            acc[key] = [getattr(st_tc, "sig_counts", {}).get(key, 1), {"part": "two-clients", "params": v["params"], "choices": v["choices"], "labels": v["labels"]}, v["message"] + " | params=%r deviations=%r" % (v["params"], v["labels"])]
    for (oracle, sig), (cnt, wit, msg) in sorted(acc.items()):
        rep.add_violation(core.Violation(oracle, sig, wit, "%s [%d cases]" % (msg[:400], cnt)))
    rep.coverage = {
        "two_client_executions": st_tc.executions,
        "states": st.points + s_ord + n_frag, "transitions": st.steps + n_ord + n_len, "traces_validated_against_impl": st.executions + n_ord + n_len,
        "length_cases": n_len, "length_cases_fragmented": n_frag, "mtus": mtus, "limit_cases": n_lim, "different_mtu_at_the_two_ends_cases": n_asym,
        "arrival_orders": n_ord, "fault_executions": st.executions, "fault_by_deviations": st.by_cost, "fault_configurations": len(plist), "fault_capped": st.capped,
        "evaluations": n_len + n_ord + st.executions + n_lim + n_asym, "distinct_nontrivial": n_frag + s_ord + len(st.outcomes),
        "rule": "lengths: every length 0..3P+20 x %d MTUs x 3 contents (position dependent, zeros, fragment-header look-alike) + limit/limit+1; "
                "orders: all permutations (and single duplications) of the <=6 datagrams of 10 message sets at a fresh receiver; "
                "faults: <=2 deviations x %d configurations (two fragmented messages in flight, retry modes, blackouts up to 200 ticks) on the real stack; two clients sending and receiving fragmented messages concurrently with per-connection attribution" % (len(mtus), len(plist)),
        "exhaustive": not st.capped,
        "samples": [{"lengths": {"mtu": 1095, "length": 1029, "content": "zero"}}, {"orders": {"case": "frag2+small+frag2", "order": [4, 2, 0, 3, 1]}}] + st.samples[:2],
    }
    rep.assumptions = ["the peer is honest (a malicious authenticated peer forging fragment headers is outside 'byte-identical to a message the peer application sent')",
                       "faults part <=2 deviations; liveness of guaranteed fragmented messages is C05's"]
    return rep


def replay(witness):
    if witness.get("part") == "asym":
        total, viols = asym_work((witness["mtu_sender"], witness["mtu_receiver"]))
        return [core.Violation(o, sg, witness, v[2]) for (o, sg), v in viols.items()]
    return _replay_rest(witness)


def _replay_rest(witness):
    part = witness.get("part")
    if part == "lengths":
        len_work_init("quick")
        total, nfrag, viols = len_work((witness["mtu"], witness["length"], witness["length"] + 1))
        return [core.Violation(k[0], k[1], witness, v[2]) for k, v in viols.items() if v[1].get("content") == witness.get("content") or True]
    if part == "limit":
        n, viols = limit_case()
        return [core.Violation(k[0], k[1], witness, v[2]) for k, v in viols.items()]
    if part == "orders":
        for label, msgs in order_cases():
            if label == witness["case"]:
                total, s, viols = order_work((label, msgs))
                return [core.Violation(k[0], k[1], witness, v[2]) for k, v in viols.items()]
    if part == "two-clients":
        ch = explore.replay_choices(two_client_scenario, _tup(witness["params"]), witness["choices"])
        return [core.Violation(o, s, witness, m) for o, s, m in ch.found]
    if part == "faults":
        ch = explore.replay_choices(scenario, _tup(witness["params"]), witness["choices"])
        return [core.Violation(o, s, witness, m) for o, s, m in ch.found]
    return []


def _tup(x):
    if isinstance(x, list):
        return tuple(_tup(i) for i in x)
    return x
