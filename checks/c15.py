"""C15 - typed JSON round trip of Serializable objects.

Engine C: every class shape of the documented annotation grammar (basic
types, nested Serializable, enum, List/Set/Tuple/Dict of these with int, str
or enum keys), alone and in pairs in one class, x a small value alphabet per
type (empty / one / two element containers, None for container fields,
negative and large ints, unicode), through fromJson(toJson(x)) and
loads(dumps(x)).
"""
import json
import itertools
from typing import List, Set, Dict, Tuple

from mc import core

core.import_repo()
from mpgameserver.serializable import Serializable, SerializableEnum, SerializableType  # noqa

PROPERTY = "C15"
LEVEL = "exploration"


class C15Mode(SerializableEnum):
    OFF = 0
    ON = 1
    AUTO = 7


class C15Level(SerializableEnum):
    """shares its values with C15Mode"""
    LOW = 0
    HIGH = 1


class C15Name(SerializableEnum):
    A = "a"
    B = "b b"
    EMPTY = ""


class C15Swap(SerializableEnum):
    """str values that are also member names (of OTHER members, of the member itself, in another case)"""
    UP = "DOWN"
    DOWN = "UP"
    SAME = "SAME"
    LEFT = "right"
    RIGHT = "left"


class C15Inner(Serializable):
    n: int = 0
    s: str = ""


class C15Mid(Serializable):
    inner: C15Inner = None
    modes: List[C15Mode] = None
    table: Dict[int, C15Inner] = None


class C15Base(Serializable):
    uid: int = 0
    label: str = ""


class C15Derived(C15Base):
    """a message class derived from another message class: its own fields, its own annotations"""
    score: int = 0
    items: List[int] = None
    stock: Dict[int, str] = None
    mode: C15Mode = C15Mode.OFF


class C15Derived2(C15Derived):
    pair: Tuple[int, str] = None
    names: Set[str] = None


class C15BaseB(Serializable):
    uid: int = 0


class C15DerivedB(C15BaseB):
    """same again, used in the opposite order (child first)"""
    score: int = 0
    items: List[int] = None


class C15Top(Serializable):
    mid: C15Mid = None
    pair: Tuple[C15Inner, int] = None
    names: Set[str] = None


class C15Vec(Serializable):
    """a nested Serializable with its OWN JSON form (a list instead of an object), overridden consistently"""
    x: int = 0
    y: int = 0

    def toJson(self):
        return [self.x, self.y]

    @classmethod
    def fromJson(cls, record):
        return cls(x=record[0], y=record[1])


class C15Label(Serializable):
    """... and one written as a string"""
    text: str = ""

    def toJson(self):
        return "L:" + self.text

    @classmethod
    def fromJson(cls, record):
        return cls(text=record[2:])


class C15Shapes(Serializable):
    pos: C15Vec = None
    label: C15Label = None
    path: List[C15Vec] = None
    anchors: Dict[str, C15Vec] = None
    box: Tuple[C15Vec, C15Label] = None
    inner: C15Inner = None


class C15Lobby(Serializable):
    """container fields whose default in the class definition is a MUTABLE object, not None (as in the library's own demo:
    ``rooms: Dict[int, str] = {}``); decoded many times in one process"""
    rooms: Dict[int, str] = {}
    names: List[str] = []
    scores: Dict[C15Mode, int] = {}
    members: Set[str] = set()
    inners: List[C15Inner] = []
    pair: Tuple[int, str] = (0, "")
    extra: List[int] = None
    title: str = "lobby"


class C15Board(Serializable):
    """same, with non-empty class-level defaults and other element types"""
    grid: Dict[str, C15Inner] = {}
    order: List[C15Mode] = [C15Mode.ON]
    seen: Set[int] = {0}
    cells: Dict[C15Name, bool] = {C15Name.A: True}
    size: Tuple[int, int] = None
    n: int = 3


VALUES = {
    int: [0, -1, 2 ** 53 + 1, 7, -(2 ** 63) + 1],      # beyond 2**53: no exact double, must not pass through a float
    float: [0.5, -2.0, 1e-3],
    str: ["", "é", "a b", "UPPER"],
    bool: [True, False],
    C15Mode: [C15Mode.OFF, C15Mode.ON, C15Mode.AUTO],
    C15Level: [C15Level.LOW, C15Level.HIGH],
    C15Name: [C15Name.A, C15Name.B, C15Name.EMPTY],
    C15Swap: [C15Swap.UP, C15Swap.DOWN, C15Swap.SAME, C15Swap.LEFT, C15Swap.RIGHT],
    C15Inner: [C15Inner(), C15Inner(n=-5, s="日本"), C15Inner(n=2 ** 63 - 1, s="x")],
}
BASIC = [int, float, str, bool, C15Mode, C15Level, C15Name, C15Swap]
KEYS = [int, str, C15Mode, C15Name, C15Swap]


def tname(t):
    return getattr(t, "__name__", None) or str(t).replace("typing.", "")


def default_for(t):
    if t in VALUES:
        return VALUES[t][0]
    return None


def annotations():
    out = []
    for t in BASIC + [C15Inner]:
        out.append(t)
    for t in BASIC:
        out.append(List[t])
        out.append(Set[t])
        out.append(Tuple[t, t])
    out.append(List[C15Inner])
    out.append(Tuple[C15Inner, int])
    for t, u in itertools.permutations(BASIC, 2):
        out.append(Tuple[t, u])
    for k in KEYS:
        for v in BASIC + [C15Inner]:
            out.append(Dict[k, v])
    return out


def values_for(ann):
    """small complete alphabet of values of that annotated type"""
    from typing import get_origin, get_args
    o = get_origin(ann)
    if o is None:
        return list(VALUES[ann])
    args = get_args(ann)
    if o is list:
        vs = VALUES[args[0]]
        return [None, [], [vs[0]], [vs[-1], vs[0]], list(vs)]
    if o is set:
        if args[0] is float or args[0] is bool or True:
            vs = VALUES[args[0]]
        return [None, set(), {vs[0]}, set(vs[:2]), set(vs)]
    if o is tuple:
        combos = list(itertools.product(*[VALUES[a] for a in args]))
        return [None] + combos
    if o is dict:
        ks, vs = VALUES[args[0]], VALUES[args[1]]
        return [None, {}, {ks[0]: vs[0]}, {ks[1]: vs[-1], ks[0]: vs[0]}, {k: vs[i % len(vs)] for i, k in enumerate(ks)}]
    raise ValueError(ann)


_CLASSES = {}


def make_class(anns):
    """a Serializable subclass with fields f0.. of the given annotations (built once per process)"""
    key = tuple(str(a) for a in anns)
    if key in _CLASSES:
        return _CLASSES[key]
    name = "C15Gen%d" % len(_CLASSES)
    ns = {"__annotations__": {"f%d" % i: a for i, a in enumerate(anns)}, "__module__": __name__}
    for i, a in enumerate(anns):
        ns["f%d" % i] = default_for(a)
    cls = SerializableType(name, (Serializable,), ns)
    _CLASSES[key] = cls
    return cls


def same(a, b, ann=None):
    """field-for-field structural equality including container type"""
    if isinstance(a, Serializable) or isinstance(b, Serializable):
        if type(a) is not type(b):
            return False
        return all(same(getattr(a, f), getattr(b, f)) for f in a._fields)
    if isinstance(a, SerializableEnum) or isinstance(b, SerializableEnum):
        return type(a) is type(b) and a.value == b.value
    if type(a) is not type(b):
        return False
    if isinstance(a, (list, tuple)):
        return len(a) == len(b) and all(same(x, y) for x, y in zip(a, b))
    if isinstance(a, set):
        return len(a) == len(b) and all(any(same(x, y) for y in b) for x in a)
    if isinstance(a, dict):
        if len(a) != len(b):
            return False
        for k, v in a.items():
            hit = [k2 for k2 in b if same(k, k2)]
            if len(hit) != 1 or not same(v, b[hit[0]]):
                return False
        return True
    return a == b


def plain(x):
    if isinstance(x, dict):
        return all(isinstance(k, (str, int, float, bool)) or k is None for k in x) and all(plain(v) for v in x.values())
    if isinstance(x, list):
        return all(plain(v) for v in x)
    return isinstance(x, (str, int, float, bool)) or x is None


def check_obj(obj, label):
    cls = type(obj)
    out = []
    try:
        j = obj.toJson()
    except Exception as e:
        return [("toJson-raises", "toJson raises %s: %s" % (type(e).__name__, label), repr(e))]
    if not plain(j):
        out.append(("plain-data", "toJson output is not plain data: %s" % label, repr(j)[:200]))
    try:
        text = json.dumps(j)
    except Exception as e:
        out.append(("json.dumps", "json.dumps refuses toJson output: %s" % label, repr(e)))
        text = None
    try:
        back = cls.fromJson(j)
        if not same(obj, back):
            out.append(("fromJson(toJson)", "fromJson(toJson(x)) != x: %s" % label, "x=%r back=%r" % (obj, back)))
    except Exception as e:
        out.append(("fromJson(toJson)", "fromJson(toJson(x)) raises %s: %s" % (type(e).__name__, label), "x=%r: %r" % (obj, e)))
    try:
        back2 = cls.loads(obj.dumps())
        if not same(obj, back2):
            out.append(("loads(dumps)", "loads(dumps(x)) != x: %s" % label, "x=%r back=%r" % (obj, back2)))
    except Exception as e:
        out.append(("loads(dumps)", "loads(dumps(x)) raises %s: %s" % (type(e).__name__, label), "x=%r: %r" % (obj, e)))
    return out


def cases(tier):
    anns = annotations()
    # single field shapes: all values
    for a in anns:
        cls = make_class([a])
        for v in values_for(a):
            yield cls(f0=v), "field %s" % tname(a), (str(a), repr(v))
    # pairs of shapes in one class (field interaction): all value pairs over thinned alphabets
    pair_anns = anns
    for a, b in itertools.product(pair_anns, repeat=2):
        cls = make_class([a, b])
        va, vb = values_for(a), values_for(b)
        if tier != "thorough":
            va, vb = va[:3], vb[-2:]
        for x, y in itertools.product(va, vb):
            yield cls(f0=x, f1=y), "fields %s + %s" % (tname(a), tname(b)), (str(a), str(b), repr(x), repr(y))
    # three level nesting
    inners = VALUES[C15Inner]
    for i1, i2 in itertools.product(inners, repeat=2):
        for modes in (None, [], [C15Mode.ON, C15Mode.OFF]):
            for table in (None, {}, {3: i2, -1: i1}):
                mid = C15Mid(inner=i1, modes=modes, table=table)
                for pair in (None, (i2, 5)):
                    for names in (None, set(), {"a", "é"}):
                        yield C15Top(mid=mid, pair=pair, names=names), "three-level nesting", (repr(i1), repr(modes), repr(table))


def hierarchy_cases():
    """classes derived from other user classes, used in a fixed order inside ONE process: parent first, then child, then
    grandchild, then parent again; and a second hierarchy child first"""
    d = C15Derived(score=-12345, items=[1, 2 ** 40], stock={1: "one", -5: "minus five"}, mode=C15Mode.AUTO)
    d2 = C15Derived2(pair=(7, "x"), names={"a", "é"})
    yield [C15Base(uid=11, label="é"), d, d2, C15Base(uid=-1, label=""), C15Derived(), C15Derived2(pair=None, names=set())], "class hierarchy, parent used first", ("hierarchy", "parent-first")
    yield [C15DerivedB(score=5, items=[3]), C15BaseB(uid=9), C15DerivedB(score=0, items=None)], "class hierarchy, child used first", ("hierarchy", "child-first")
    # nested classes that override toJson / fromJson with a non-object JSON form, in every typed position
    v, w_, lb = C15Vec(x=3, y=-4), C15Vec(x=0, y=2 ** 40), C15Label(text="é x")
    yield [C15Shapes(pos=v, label=lb, path=[v, w_], anchors={"hand": w_, "": v}, box=(w_, lb), inner=C15Inner(n=1, s="s")),
           C15Shapes(pos=w_, label=C15Label(text=""), path=[], anchors={}, box=None, inner=C15Inner()),
           C15Shapes(pos=C15Vec(), label=lb, path=None, anchors=None, box=(v, C15Label(text="L:")), inner=C15Inner(n=-1, s=""))], "nested class with its own JSON form", ("custom-json", "all positions")
    # (None is only a value of CONTAINER fields: a nested Serializable field always holds an instance)


# ---- sequences of decodes of ONE class in one process ---------------------------------------------------------------------
# fromJson(toJson(x)) reproduces x for every x, so also for the second and third object of a class that a process decodes,
# whatever it constructed or decoded before, and an object that was returned as the reproduction of x stays that (it does not
# change when ANOTHER object is decoded or constructed).  Classes with mutable class-level container defaults; every sequence
# of SEQ_DEPTH operations from {decode object i (4 objects incl. all-empty and all-None containers) built by keyword arguments
# through fromJson / through loads, decode object i built by filling a default-constructed instance in place, construct a
# bare Cls()}.  All decoded objects are compared again at the end of the sequence.

def seq_specs(cls):
    """fresh, harness-owned field values (never handed out twice)"""
    i0, i1 = C15Inner(n=-5, s="日本"), C15Inner(n=2 ** 63 - 1, s="x")
    if cls is C15Lobby:
        return [
            dict(rooms={1: "lobby", -7: "café"}, names=["ann", "bob"], scores={C15Mode.ON: 3}, members={"a", "é"}, inners=[i0, i1],
                 pair=(7, "x"), extra=[1, 2], title="first"),
            dict(rooms={2: "arena"}, names=["中文"], scores={C15Mode.AUTO: -(2 ** 63) + 1, C15Mode.OFF: 0}, members={"zed"}, inners=[i1],
                 pair=(-1, ""), extra=[], title=""),
            dict(rooms={}, names=[], scores={}, members=set(), inners=[], pair=(0, "é"), extra=[], title="empty"),
            dict(rooms=None, names=None, scores=None, members=None, inners=None, pair=None, extra=None, title="none"),
        ]
    return [
        dict(grid={"a": i0, "": i1}, order=[C15Mode.AUTO, C15Mode.OFF], seen={5, -(2 ** 53) - 1}, cells={C15Name.B: False}, size=(3, -4), n=1),
        dict(grid={"é": i1}, order=[C15Mode.ON], seen={7}, cells={C15Name.EMPTY: True, C15Name.A: False}, size=(0, 0), n=-1),
        dict(grid={}, order=[], seen=set(), cells={}, size=(1, 2), n=0),
        dict(grid=None, order=None, seen=None, cells=None, size=None, n=2 ** 53 + 1),
    ]


SEQ_CLASSES = [C15Lobby, C15Board]
SEQ_DEPTH = {"quick": 3, "thorough": 4}
SEQ_BACK = 4


def frozen(v):
    """immutable, type-strict picture of a field value (so that a later comparison does not depend on objects the code under
    test may still hold)"""
    if isinstance(v, Serializable):
        return ("obj", type(v).__name__, tuple((f, frozen(getattr(v, f))) for f in v._fields))
    if isinstance(v, SerializableEnum):
        return ("enum", type(v).__name__, frozen(v.value))
    if isinstance(v, (list, tuple)):
        return (type(v).__name__, tuple(frozen(x) for x in v))
    if isinstance(v, (set, frozenset)):
        return (type(v).__name__, frozenset(frozen(x) for x in v))
    if isinstance(v, dict):
        return ("dict", frozenset((frozen(k), frozen(x)) for k, x in v.items()))
    return (type(v).__name__, v)


def seq_ops(cls):
    """[(name, how, spec index or None)]"""
    ops = []
    for i in range(len(seq_specs(cls))):
        ops.append(("fromJson(toJson(x%d))" % i, "fromJson", i))
        ops.append(("loads(dumps(x%d))" % i, "loads", i))
        ops.append(("fromJson(toJson(x%d)), x%d = %s() filled in place" % (i, i, cls.__name__), "inplace", i))
    ops.append(("%s()" % cls.__name__, "construct", None))
    return ops


def seq_build(cls, how, i):
    spec = seq_specs(cls)[i]
    if how != "inplace":
        return cls(**spec)
    x = cls()
    for f, v in spec.items():
        cur = getattr(x, f)
        if isinstance(v, list) and isinstance(cur, list):
            cur.extend(v)
        elif isinstance(v, dict) and isinstance(cur, dict):
            cur.update(v)
        elif isinstance(v, set) and isinstance(cur, set):
            cur.update(v)
        else:
            setattr(x, f, v)
    return x


# the defaults as written in the class definitions, pictured at import time (before anything could have changed them)
SEQ_DEFAULTS = {c.__name__: {f: repr(c.__dict__.get(f)) for f in c._fields} for c in SEQ_CLASSES}


def field_kind(cls, f):
    return "%s.%s: %s = %s" % (cls.__name__, f, str(cls.__annotations__[f]).replace("typing.", "").replace("checks.c15.", ""), SEQ_DEFAULTS[cls.__name__][f])


_SEQ_LOG = {}
_SEQ_BROKEN = set()   # classes for which this process has already reported a violation


def seq_run(cls, indices, log):
    """run the operations; log = operations on this class this process ran before (extended in place).
    returns [(oracle, sig, witness, message)]"""
    ops = seq_ops(cls)
    out = []
    held = []     # (op position, name, decoded object, picture of x when it was encoded)
    for pos, k in enumerate(indices):
        name, how, i = ops[k]
        before = list(log[-SEQ_BACK:])
        log.append(k)
        wit = {"family": "sequence", "class": cls.__name__, "ops": before + [k], "names": [ops[j][0] for j in before] + [name]}
        if how == "construct":
            cls()
            continue
        oracle = "loads(dumps)" if how == "loads" else "fromJson(toJson)"
        try:
            x = seq_build(cls, how, i)
            want = {f: frozen(getattr(x, f)) for f in cls._fields}
            shown = {f: repr(getattr(x, f))[:120] for f in cls._fields}
            y = cls.loads(x.dumps()) if how == "loads" else cls.fromJson(x.toJson())
        except Exception as e:
            out.append((oracle, "%s raises %s in a sequence of decodes of one class" % (oracle, type(e).__name__), wit,
                        "%s: %r; operations on %s just before (latest last): %s" % (name, e, cls.__name__, " ; ".join(ops[j][0] for j in before) or "none")))
            break
        wrong = [f for f in cls._fields if frozen(getattr(y, f)) != want[f]]
        if wrong:
            f = wrong[0]
            out.append((oracle, "%s != x in a sequence of decodes of one class: field %s" % (oracle, field_kind(cls, f)), wit,
                        "%s: field %s is %.120r, x had %s; operations on %s just before (latest last): %s" % (
                            name, f, getattr(y, f), shown[f], cls.__name__, " ; ".join(ops[j][0] for j in before) or "none")))
            break
        held.append((pos, name, y, want))
    if not out:
        # every object decoded in this sequence, looked at again
        for pos, name, y, want in held:
            wrong = [f for f in cls._fields if frozen(getattr(y, f)) != want[f]]
            if wrong:
                f = wrong[0]
                wit = {"family": "sequence", "class": cls.__name__, "ops": list(indices), "names": [ops[j][0] for j in indices]}
                out.append(("result-changes-later", "object returned by fromJson/loads no longer equals x after later operations on the class: field %s" % field_kind(cls, f), wit,
                            "sequence %s: the result of operation %d (%s) was equal to x, after the sequence its field %s is %.120r" % (
                                " ; ".join(ops[j][0] for j in indices), pos + 1, name, f, getattr(y, f))))
                break
    return out


def seq_work(arg):
    ci, first, depth = arg
    cls = SEQ_CLASSES[ci]
    n_ops = len(seq_ops(cls))
    log = _SEQ_LOG.setdefault(cls.__name__, [])
    viols = {}
    n = decodes = 0
    if cls.__name__ in _SEQ_BROKEN:
        return n, decodes, viols
    for rest in itertools.product(range(n_ops), repeat=depth - 1):
        n += 1
        seq = (first,) + rest
        decodes += sum(1 for k in seq if k != n_ops - 1)
        for oracle, sig, wit, msg in seq_run(cls, seq, log):
            viols.setdefault((oracle, sig), [0, wit, msg])[0] += 1
        if viols:
            # one report per class and process: whatever made the decode wrong may live on in the class, later sequences in this
            # process say nothing new (and state that leaks from decode to decode can grow without bound)
            _SEQ_BROKEN.add(cls.__name__)
            break
    return n, decodes, viols


def work_init(tier):
    global _TIER
    _TIER = tier


def work(arg):
    k, n = arg
    total = 0
    viols = {}
    labels = core.Counter()
    distinct = set()
    for i, (obj, label, ident) in enumerate(itertools.chain(cases(_TIER), hierarchy_cases())):
        if i % n != k:
            continue
        total += 1
        labels.inc(label.split(" ")[0])
        if isinstance(obj, list):
            bad = []
            for o in obj:
                bad += check_obj(o, label + " (%s)" % type(o).__name__)
                total += 1
        else:
            bad = check_obj(obj, label)
        for oracle, sig, msg in bad:
            viols.setdefault((oracle, sig), [0, {"label": label, "ident": ident}, msg])[0] += 1
        if not bad:
            distinct.add(ident)
    return total, dict(labels), viols, len(distinct)


def run(tier, seed):
    rep = core.Report()
    # classes are created lazily inside cases(); create them all BEFORE forking so that type ids agree
    for _ in cases(tier):
        pass
    n = 16
    res = core.pmap("checks.c15", "work", [((k + seed) % n, n) for k in range(n)], initargs=(tier,))
    total, distinct = 0, 0
    labels = core.Counter()
    acc = {}
    for t, lab, viols, d in res:
        total += t
        distinct += d
        for k, v in lab.items():
            labels.inc(k, v)
        for key, (cnt, wit, msg) in viols.items():
            if key not in acc:
                acc[key] = [0, wit, msg]
            acc[key][0] += cnt
    # sequences of decodes of one class (classes with mutable class-level defaults), first operation = work item
    depth = SEQ_DEPTH[tier]
    items = [(ci, (k + seed) % len(seq_ops(cls)), depth) for ci, cls in enumerate(SEQ_CLASSES) for k in range(len(seq_ops(cls)))]
    n_seq = n_dec = 0
    for t, d, viols in core.pmap("checks.c15", "seq_work", items, initargs=(tier,)):
        n_seq += t
        n_dec += d
        for key, (cnt, wit, msg) in viols.items():
            if key not in acc:
                acc[key] = [0, wit, msg[:700]]
            acc[key][0] += cnt
    total += n_dec
    for (oracle, sig), (cnt, wit, msg) in sorted(acc.items()):
        rep.add_violation(core.Violation(oracle, sig, wit, "%s [%d cases]" % (msg, cnt)))
    rep.coverage = {
        "evaluations": total, "distinct_nontrivial": distinct,
        "rule": "class shapes: %d single-field annotations (basic, nested, enum, List/Set/Tuple/Dict over them with int/str/enum keys), all ordered pairs of %s shapes in one class, a three-level nesting; "
                "values: complete small alphabets per type incl. None/empty/1/2-element containers. non-trivial = distinct (shape, value) cases that passed every clause" % (
                    len(annotations()), "all (thorough: all value pairs; quick: 3x2 values per pair)"),
        "sequences": {"classes": [c.__name__ for c in SEQ_CLASSES], "operations_per_class": len(seq_ops(SEQ_CLASSES[0])), "depth": depth,
                      "sequences": n_seq, "decodes": n_dec,
                      "rule": "classes whose List/Dict/Set/Tuple fields have mutable class-level defaults ({} [] set() and non-empty ones): every sequence of %d operations "
                              "from {decode object i of 4 (full, other, all-empty, all-None) built by keywords via fromJson / via loads, built by filling Cls() in place via fromJson; "
                              "bare Cls()}; each decode compared with x at once and all decoded objects again at the end of the sequence" % depth},
        "case_kinds": dict(labels), "classes_generated": len(_CLASSES), "exhaustive": True,
        "samples": core.safe_samples(lambda: [{"case": label, "object": repr(obj)[:160], "toJson": repr(obj.toJson())[:160]} for obj, label, ident in itertools.islice(cases(tier), 150, 20000, 6000)]),
    }
    rep.assumptions = ["fields hold values of their annotated types; None only for container fields; enum member names upper-case (as documented)"]
    return rep


def replay(witness):
    if witness.get("family") == "sequence":
        cls = [c for c in SEQ_CLASSES if c.__name__ == witness["class"]][0]
        return [core.Violation(o, sg, witness, m[:700]) for o, sg, w, m in seq_run(cls, witness["ops"], [])]
    for obj, label, ident in itertools.chain(hierarchy_cases(), cases("thorough")):
        if list(ident) == list(witness.get("ident", [])) and label == witness.get("label"):
            objs = obj if isinstance(obj, list) else [obj]
            return [core.Violation(o, s, witness, m) for x in objs for o, s, m in check_obj(x, label + (" (%s)" % type(x).__name__ if isinstance(obj, list) else ""))]
    return []
