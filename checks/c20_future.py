"""resources whose annotations are strings (postponed evaluation)"""
from __future__ import annotations

from mc import core

core.import_repo()
from mpgameserver.dispatch import server_event, client_event  # noqa


def make(log, A):
    class R2S(object):
        rid = "R2"

        @server_event
        def on_a(self, client, seqnum, msg: C20A):
            log.append(("R2.on_a", (client, seqnum, msg)))

    class R2C(object):
        rid = "R2"

        @client_event
        def on_a(self, seqnum, msg: C20A):
            log.append(("R2.on_a", (seqnum, msg)))

    return R2S(), R2C()
