"""C20 - dispatcher routes by message class; register/unregister are inverses.

Engine B: breadth-first search over operation sequences of the real
ServerMessageDispatcher and ClientMessageDispatcher, reference model (a dict,
three-valued after a refused registration) stepped in lock-step, states hashed
on (registry contents, reference state).
"""
import collections

from mc import core

core.import_repo()
from mpgameserver.serializable import Serializable  # noqa
from mpgameserver.dispatch import (ServerMessageDispatcher, ClientMessageDispatcher, DispatchError,
                                   server_event, client_event)  # noqa

PROPERTY = "C20"
LEVEL = "model_checking"


class C20A(Serializable):
    v: int = 0


class C20B(Serializable):
    v: int = 0


class C20C(Serializable):
    v: int = 0


class C20D(C20A):
    """a subclass of a handled class, never registered itself"""
    w: int = 0


class C20Lookup(KeyError):
    pass


# what a handler may raise: dispatch lets it through unchanged (DispatchError means "no handler", nothing else)
RAISES = [KeyError, ValueError, C20Lookup, LookupError, AttributeError, TypeError, RuntimeError]

MSG = {"A": C20A, "B": C20B, "C": C20C, "D": C20D}
UNKNOWN = "?"


def build(kind):
    """fresh dispatcher + resources + call log"""
    log = []

    def mk(rid, table, binding=None):
        # table: method name -> message class ; built with real decorators
        ns = {"rid": rid}
        def handler_s(_n, cls):
            def h(self, client, seqnum, msg):
                log.append(("%s.%s" % (self.rid, _n), (client, seqnum, msg)))
                if msg.v < 0:
                    raise RAISES[(-msg.v) % len(RAISES)]("handler fails (injected)")
            h.__annotations__ = {"msg": cls}
            h.__name__ = _n
            return server_event(h)

        def handler_c(_n, cls):
            def h(self, seqnum, msg):
                log.append(("%s.%s" % (self.rid, _n), (seqnum, msg)))
                if msg.v < 0:
                    raise RAISES[(-msg.v) % len(RAISES)]("handler fails (injected)")
            h.__annotations__ = {"msg": cls}
            h.__name__ = _n
            return client_event(h)
        for mname, cls in table.items():
            how = (binding or {}).get(mname)
            if how == "static":
                # a staticmethod handler: no self at all
                def hs_(*args, _n=mname):
                    log.append(("%s.%s" % (rid, _n), args))
                    if args[-1].v < 0:
                        raise RAISES[(-args[-1].v) % len(RAISES)]("handler fails (injected)")
                hs_.__annotations__ = {"msg": cls}
                hs_.__name__ = mname
                ns[mname] = staticmethod(server_event(hs_) if kind == "server" else client_event(hs_))
                continue
            h = handler_s(mname, cls) if kind == "server" else handler_c(mname, cls)
            ns[mname] = classmethod(h) if how == "class" else h
        return type(rid, (object,), ns)()

    from checks import c20_future
    c20_future.C20A = C20A
    r2s, r2c = c20_future.make(log, C20A)
    res = {
        "R1": mk("R1", {"on_a": C20A, "on_b": C20B}),
        "R2": r2s if kind == "server" else r2c,
        # a handler is a handler whatever its method is called: private-style name
        "R3": mk("R3", {"_on_c": C20C}),
        # partial conflict with R1 (B) and R3 (C): conflicting method alphabetically first ...
        "R4": mk("R4", {"a_first_b": C20B, "z_last_c": C20C}),
        # ... and last
        "R5": mk("R5", {"a_first_c": C20C, "z_last_a": C20A}),
        # two handlers for ONE class inside one resource (class annotation + string annotation): always refused
        "R6": mk("R6", {"on_c_one": C20C, "on_c_two": "C20C", "on_b": C20B}),
        # handlers that are not plain instance methods: classmethods (bound to the class, not to the resource object)
        "R7": mk("R7", {"on_c": C20C, "on_a": C20A}, {"on_c": "class", "on_a": "class"}),
    }
    handlers = {
        "R1": {"A": "R1.on_a", "B": "R1.on_b"}, "R2": {"A": "R2.on_a"}, "R3": {"C": "R3._on_c"},
        "R4": {"B": "R4.a_first_b", "C": "R4.z_last_c"}, "R5": {"C": "R5.a_first_c", "A": "R5.z_last_a"},
        "R6": {"C": "R6.on_c_one", "B": "R6.on_b"},
        "R7": {"C": "R7.on_c", "A": "R7.on_a"},
    }
    fam, fam_handlers = family(kind, log)
    res.update(fam)
    handlers.update(fam_handlers)
    disp = ServerMessageDispatcher() if kind == "server" else ClientMessageDispatcher()
    return disp, res, handlers, log


def family(kind, log):
    """resource classes that derive from one another (built afresh for every history: whatever the library
    remembers per class starts empty, so the ORDER in which the classes are first used is part of the history).

        Base            on_a: C20A
        Derived(Base)   + on_b: C20B (class annotation), on_c: 'C20C' (string annotation); on_a inherited
        Sibling(Base)   + z_c: C20C; on_a inherited

    HB = Base(), HD and HD2 = two instances of Derived, HE = Sibling()."""
    deco = server_event if kind == "server" else client_event

    def handler(name, cls):
        if kind == "server":
            def h(self, client, seqnum, msg):
                log.append(("%s.%s" % (self.rid, name), (client, seqnum, msg)))
        else:
            def h(self, seqnum, msg):
                log.append(("%s.%s" % (self.rid, name), (seqnum, msg)))
        h.__annotations__ = {"msg": cls}
        h.__name__ = name
        return deco(h)

    def init(self, rid):
        self.rid = rid

    Base = type("C20Base", (object,), {"__init__": init, "on_a": handler("on_a", C20A)})
    Derived = type("C20Derived", (Base,), {"on_b": handler("on_b", C20B), "on_c": handler("on_c", "C20C")})
    Sibling = type("C20Sibling", (Base,), {"z_c": handler("z_c", C20C)})
    res = {"HB": Base("HB"), "HD": Derived("HD"), "HD2": Derived("HD2"), "HE": Sibling("HE")}
    handlers = {"HB": {"A": "HB.on_a"},
                "HD": {"A": "HD.on_a", "B": "HD.on_b", "C": "HD.on_c"},
                "HD2": {"A": "HD2.on_a", "B": "HD2.on_b", "C": "HD2.on_c"},
                "HE": {"A": "HE.on_a", "C": "HE.z_c"}}
    return res, handlers


def free_fn(kind, log):
    if kind == "server":
        def f(client, seqnum, msg):
            log.append(("F.f", (client, seqnum, msg)))
    else:
        def f(seqnum, msg):
            log.append(("F.f", (seqnum, msg)))
    return f


# handler names a resource may legitimately leave registered for a class (R6 has two candidates for C)
ALSO = {("R6", "C"): {"R6.on_c_one", "R6.on_c_two"}}
SELF_CONFLICT = {"R6"}


def names_of(rid, c, hs):
    return ALSO.get((rid, c), {hs[c]})


OPS = [("register", r) for r in ("R1", "R2", "R3", "R4", "R5", "R6", "R7")] + [("unregister", r) for r in ("R1", "R2", "R3", "R4", "R5", "R6", "R7")] + \
      [("dispatch", m) for m in ("A", "B", "C", "D")] + [("register_function", "A"), ("register_function_byname", "B"), ("unregister_function", "A"), ("unregister_function", "C")]

# second exploration: the class hierarchy (family()) on TWO dispatchers of the same kind.  An operation
# with a third element acts on the second dispatcher.  No dispatch operations: every class is dispatched
# on every dispatcher after every operation anyway.
OPS_H = [(k, r) for k in ("register", "unregister") for r in ("HB", "HD", "HD2", "HE", "R3")] + \
        [(k, r, 1) for k in ("register", "unregister") for r in ("HB", "HD", "HE")]


class Run(object):
    """implementation + reference stepped together.

    The reference is a plain dict class -> handler name.  After every
    operation the implementation is *observed through its public API only*:
    dispatch() of one fresh message per class tells which handler (if any) is
    registered.  Where the statement leaves an outcome open (the partial effect
    of a refused registration on the resource's other classes; unregistering
    something that is not registered) the observed outcome is adopted, provided
    it lies in the allowed set."""

    def __init__(self, kind, hier=False):
        self.kind = kind
        self.disp, self.res, self.handlers, self.log = build(kind)
        self.f = free_fn(kind, self.log)
        self.ref = {}
        self.bad = None
        self.n = 0
        # dispatchers and their references; index 0 is the one every two-element operation acts on
        self.disps = [self.disp]
        self.refs = [self.ref]
        if hier:
            self.disps.append(type(self.disp)())
            self.refs.append({})
        self.used = []   # resource classes in the order of their first use (register or unregister, anywhere)

    def flag(self, oracle, sig, msg):
        if self.bad is None:
            self.bad = (oracle, sig, msg)

    def probe(self, letter, where=0):
        """dispatch one message of that class: returns handler name, None (DispatchError) or ('anomaly', text)"""
        disp = self.disps[where]
        self.n += 1
        del self.log[:]
        msg = MSG[letter](v=self.n)
        token_c, token_s = object(), object()
        args = (token_c, token_s, msg) if self.kind == "server" else (token_s, msg)
        try:
            disp.dispatch(*args)
            raised = None
        except DispatchError as e:
            raised = e
        except Exception as e:
            return ("anomaly", "dispatch raises %s instead of DispatchError" % type(e).__name__)
        ran = list(self.log)
        if raised is not None:
            if ran:
                return ("anomaly", "dispatch ran a handler and raised DispatchError")
            return None
        if len(ran) != 1:
            return ("anomaly", "dispatch invoked %d handlers" % len(ran))
        if len(ran[0][1]) != len(args) or not all(a is b for a, b in zip(ran[0][1], args)):
            return ("anomaly", "handler received different argument objects")
        # the registered handler fails: its exception comes out of dispatch() as it is
        if ran[0][0].startswith("R") and not ran[0][0].startswith("R2"):
            for k in range(1, len(RAISES) + 1):
                del self.log[:]
                bad = MSG[letter](v=-k)
                a2 = (token_c, token_s, bad) if self.kind == "server" else (token_s, bad)
                want = RAISES[k % len(RAISES)]
                try:
                    disp.dispatch(*a2)
                    return ("anomaly", "dispatch swallows an exception raised by the handler (%s)" % want.__name__)
                except DispatchError:
                    return ("anomaly", "dispatch raises DispatchError although a handler is registered and was called (the handler raised %s)" % want.__name__)
                except Exception as e:
                    if type(e) is not want:
                        return ("anomaly", "dispatch turns the handler's %s into %s" % (want.__name__, type(e).__name__))
                if len(self.log) != 1:
                    return ("anomaly", "a failing handler was invoked %d times" % len(self.log))
        return ran[0][0]

    def observe(self, where=0):
        return {letter: self.probe(letter, where) for letter in MSG}

    def step(self, op):
        kind, arg = op[0], op[1]
        where = op[2] if len(op) > 2 else 0
        ref = self.refs[where]
        disp = self.disps[where]
        if kind in ("register", "unregister") and type(self.res[arg]).__name__ not in self.used:
            self.used.append(type(self.res[arg]).__name__)
        open_classes = {}   # class -> set of allowed observations (besides what ref says)
        raised = None
        if kind == "register":
            hs = self.handlers[arg]
            conflict = [c for c in hs if c in ref]
            try:
                disp.register(self.res[arg])
            except Exception as e:
                raised = e
            if conflict or arg in SELF_CONFLICT:
                if raised is None:
                    if conflict:
                        self.flag("duplicate-refused", "registering a second handler for a class is not refused", "register(%s) succeeded although %s already registered" % (arg, conflict))
                    else:
                        self.flag("duplicate-refused", "a resource with two handlers for one class is registered without complaint (one of them is silently dropped)", "register(%s) succeeded" % arg)
                for c in hs:
                    if c not in ref:
                        open_classes[c] = {None} | names_of(arg, c, hs)
            else:
                if raised is not None:
                    self.flag("register", "register of a resource without conflicts raises %s" % type(raised).__name__, "register(%s): %r" % (arg, raised))
                for c in hs:
                    ref[c] = hs[c]
        elif kind == "unregister":
            hs = self.handlers[arg]
            fully = all(ref.get(c) in names_of(arg, c, hs) for c in hs)
            try:
                disp.unregister(self.res[arg])
            except Exception as e:
                raised = e
            if fully and raised is not None:
                self.flag("unregister", "unregister of a registered resource raises %s" % type(raised).__name__, "unregister(%s): %r" % (arg, raised))
            for c in hs:
                if ref.get(c) in names_of(arg, c, hs):
                    if raised is None or fully:
                        del ref[c]
                    else:
                        open_classes[c] = {None, ref[c]}   # it raised on the way: either is acceptable
        elif kind == "dispatch":
            got = self.probe(arg, where)
            want = ref.get(arg)
            if isinstance(got, tuple):
                self.flag("dispatch", got[1], "dispatch(%s)" % arg)
            elif got != want:
                if want is None:
                    self.flag("dispatch-unregistered", "dispatch of a class without handler ran a handler", "dispatch(%s) ran %s" % (arg, got))
                elif got is None:
                    self.flag("dispatch-registered", "dispatch of a registered class raises DispatchError", "dispatch(%s) with %s registered" % (arg, want))
                else:
                    self.flag("dispatch-wrong-handler", "dispatch invoked a wrong handler", "dispatch(%s) ran %s, registered %s" % (arg, got, want))
        elif kind in ("register_function", "register_function_byname"):
            cls = MSG[arg]
            try:
                disp.register_function(cls if kind == "register_function" else cls.__name__, self.f)
            except Exception as e:
                raised = e
            if arg in ref:
                if raised is None:
                    self.flag("duplicate-refused", "registering a second handler for a class is not refused", "register_function(%s) succeeded although %s registered" % (arg, ref[arg]))
            else:
                if raised is not None:
                    self.flag("register", "register_function for a free class raises %s" % type(raised).__name__, repr(raised))
                ref[arg] = "F.f"
        elif kind == "unregister_function":
            cls = MSG[arg]
            try:
                disp.unregister_function(cls)
            except Exception as e:
                raised = e
            if arg in ref:
                if raised is not None:
                    self.flag("unregister", "unregister_function of a registered class raises %s" % type(raised).__name__, "unregister_function(%s): %r" % (arg, raised))
                del ref[arg]
            # absent: raising or not are both fine
        # observation after every operation
        if self.bad is None:
            # the dispatchers that were NOT operated on route exactly as before
            for w in range(len(self.disps)):
                if w == where:
                    continue
                for letter, got in self.observe(w).items():
                    if isinstance(got, tuple):
                        self.flag("dispatch", got[1], "after %s(%s) on another dispatcher: dispatch(%s)" % (kind, arg, letter))
                    elif got != self.refs[w].get(letter):
                        self.flag("other-dispatcher", "an operation on one dispatcher changes what another dispatcher invokes",
                                  "after %s(%s) on dispatcher %d: dispatcher %d dispatch(%s) ran %s, registered there %s" % (kind, arg, where, w, letter, got, self.refs[w].get(letter)))
            obs = self.observe(where) if self.bad is None else {}
            for letter, got in obs.items():
                if isinstance(got, tuple):
                    self.flag("dispatch", got[1], "after %s(%s): dispatch(%s)" % (kind, arg, letter))
                    continue
                if letter in open_classes:
                    if got not in open_classes[letter]:
                        self.flag("dispatch-wrong-handler", "after a refused/failed operation an unrelated handler is registered", "after %s(%s): dispatch(%s) ran %s" % (kind, arg, letter, got))
                    elif got is None:
                        ref.pop(letter, None)
                    else:
                        ref[letter] = got
                    continue
                want = ref.get(letter)
                if got != want:
                    if kind == "unregister" and want is None and got is not None:
                        self.flag("unregister", "after unregister(resource) its handler is still invoked", "after unregister(%s): dispatch(%s) ran %s" % (arg, letter, got))
                    elif kind in ("unregister", "unregister_function") and want is not None and got is None:
                        self.flag("unregister", "unregister removed a handler that belongs to another resource", "after %s(%s): dispatch(%s) raises, %s was registered" % (kind, arg, letter, want))
                    elif want is None:
                        self.flag("dispatch-unregistered", "dispatch of a class without handler ran a handler", "after %s(%s): dispatch(%s) ran %s" % (kind, arg, letter, got))
                    elif got is None:
                        self.flag("dispatch-registered", "dispatch of a registered class raises DispatchError", "after %s(%s): dispatch(%s), %s registered" % (kind, arg, letter, want))
                    else:
                        self.flag("dispatch-wrong-handler", "dispatch invoked a wrong handler", "after %s(%s): dispatch(%s) ran %s, registered %s" % (kind, arg, letter, got, want))

    def canon(self):
        if len(self.refs) > 1:
            # plus the other dispatcher and the order in which the resource classes were first used
            return tuple(tuple(sorted(r.items())) for r in self.refs) + (tuple(self.used),)
        return tuple(sorted(self.ref.items()))


def bfs(kind, depth, ops=None, hier=False):
    ops = OPS if ops is None else ops
    seen = set()
    frontier = collections.deque([()])
    r0 = Run(kind, hier)
    seen.add(r0.canon())
    transitions = 0
    viols = {}
    maxd = 0
    samples = []
    while frontier:
        hist = frontier.popleft()
        if len(hist) >= depth:
            continue
        for op in ops:
            r = Run(kind, hier)
            for h in hist:
                r.step(h)
            if r.bad:
                break  # do not extend histories that already failed
            r.step(op)
            transitions += 1
            if r.bad:
                key = (r.bad[0], r.bad[1])
                if key not in viols:
                    viols[key] = [0, dict({"kind": kind, "ops": [list(o) for o in hist + (op,)]}, **({"hier": True} if hier else {})), r.bad[2]]
                viols[key][0] += 1
                continue
            k = r.canon()
            if k not in seen:
                seen.add(k)
                frontier.append(hist + (op,))
                maxd = max(maxd, len(hist) + 1)
                if len(samples) < 3 and len(hist) + 1 >= 3:
                    samples.append([list(o) for o in hist + (op,)])
    return len(seen), transitions, maxd, viols, samples


def work(arg):
    kind, depth = arg[:2]
    if len(arg) > 2:
        return (kind + " (class hierarchy)",) + bfs(kind, depth, OPS_H, True)
    return (kind,) + bfs(kind, depth)


def run(tier, seed):
    rep = core.Report()
    depth = 5 if tier == "quick" else 8
    depth_h = 4 if tier == "quick" else 6
    res = core.pmap("checks.c20", "work", [("server", depth), ("client", depth), ("server", depth_h, "hier"), ("client", depth_h, "hier")])
    states = transitions = 0
    maxd = 0
    samples = []
    hier_cov = {"states": 0, "transitions": 0, "max_depth_with_new_states": 0, "depth_bound": depth_h, "operations": len(OPS_H), "samples": []}
    for kind, s, t, d, viols, smp in res:
        if "hierarchy" in kind:
            hier_cov["states"] += s
            hier_cov["transitions"] += t
            hier_cov["max_depth_with_new_states"] = max(hier_cov["max_depth_with_new_states"], d)
            hier_cov["samples"] += smp[:1]
            for (oracle, sig), (cnt, wit, msg) in sorted(viols.items()):
                rep.add_violation(core.Violation(oracle, sig, wit, "%s dispatcher: %s [%d histories]" % (kind, msg, cnt)))
            continue
        states += s
        transitions += t
        maxd = max(maxd, d)
        samples += smp[:2]
        for (oracle, sig), (cnt, wit, msg) in sorted(viols.items()):
            rep.add_violation(core.Violation(oracle, sig, wit, "%s dispatcher: %s [%d histories]" % (kind, msg, cnt)))
    rep.coverage = {
        "states": states, "transitions": transitions, "traces_validated_against_impl": transitions, "max_depth_with_new_states": maxd,
        "depth_bound": depth, "operations": len(OPS), "evaluations": transitions, "distinct_nontrivial": states,
        "rule": "BFS over all sequences of %d operations (register/unregister of 5 resources incl. one with string annotations and two partial-conflict shapes, dispatch of 4 classes incl. an unregistered subclass, "
                "register_function by class and by name, unregister_function) up to depth %d; states = distinct registration maps (observed through dispatch after every operation and equal to the reference); every transition executes the real dispatcher" % (len(OPS), depth),
        "exhaustive": True, "samples": samples or [[["register", "R1"], ["dispatch", "A"]]],
        "class_hierarchy": dict(hier_cov, rule="second BFS, two dispatchers of the same kind, resource classes built afresh per history: Base (A), Derived(Base) adding B (class annotation) and C (string annotation), "
                                               "two instances of Derived, Sibling(Base) adding C, plus the unrelated R3 (C); register/unregister of each on the first dispatcher and of Base/Derived/Sibling instances on the second "
                                               "(%d operations) up to depth %d; states = (registration map of each dispatcher, order in which the resource classes were first used); after every operation every class is dispatched on both dispatchers" % (len(OPS_H), depth_h)),
    }
    rep.assumptions = ["a refused registration may have had a partial effect on the resource's other classes (reference is three-valued there)",
                       "unregister of something not registered may raise or be a no-op"]
    return rep


def replay(witness):
    r = Run(witness["kind"], bool(witness.get("hier")))
    for op in witness["ops"]:
        r.step(tuple(op))
    return [core.Violation(r.bad[0], r.bad[1], witness, r.bad[2])] if r.bad else []
