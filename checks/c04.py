"""C04 - at-most-once delivery; duplicates and replays are dropped whole.

Engine A on the full stack (real UdpClient <-> real server loop).  Program:
1-2 application messages (each retry mode, single datagram or fragmented) in
one direction, optionally followed by a macro step that moves the 32-datagram
window (idle 4 s) or the 256-message window (burst of 300 messages) past them.
Adversary (cost 1 each): per-datagram fate drop / dup / delay 2 / 8 / 70 ticks
for every datagram of the send phase, and replay of ANY datagram recorded in
the send phase at two later points (right after the send phase, after the
macro step).
"""
import struct

from mc import core, explore, lap
from mc.world import World
from mc.pair import DeliveryMonitor, app_send, payload, add_bystander

PROPERTY = "C04"
LEVEL = "model_checking"

SIZES = {"small": 40, "empty": 0, "frag2": 1700, "frag3": 2600}
FATES = ["dup", "delay2", "delay8", "delay70", "drop"]


TIER = ["quick"]
WALKS = {"walk": (32767, -40), "walk33": (33,), "walk4": (16000, 16000, 16000, 17500), "walkback": (-1, -33, 40)}


def scenario_init():
    import os
    TIER[0] = os.environ.get("_C04_TIER", "quick")


def scenario(params, ch):
    direction, msgs, macro, order, latency, blackout = params
    mon = DeliveryMonitor(check_dup_datagram=True)
    opts = order.split("|")[1:]     # "cs|dt60": 60 Hz frames; "cs|ka0.5": keep-alive (= resend delay) 0.5 s on both ends
    order = order.split("|")[0]
    ka = next((float(o[2:]) for o in opts if o.startswith("ka")), None)
    early = []

    def on_connected(w_, ce, ok):
        # "cs|oncb": the client application sends its first message from INSIDE the connect callback, so that it
        # shares a datagram with the challenge response
        if ok and "oncb" in opts and not early:
            size, retry = msgs[0]
            early.append(app_send(w_, mon, "c", payload(1, SIZES[size]), retry))
    w = World(n_clients=(2 if "by" in opts else 1), order=order, latency=latency, chooser=ch, monitors=[mon], dt=(1.0 / 60 if "dt60" in opts else (0.02 if "dt50" in opts else 1.0 / 64)),
              server_cfg=({"setKeepAliveInterval": ka} if ka else None), client_cfg=({"setKeepAliveInterval": ka} if ka else None),
              on_connected=(on_connected if "oncb" in opts else None))
    sender = direction[0]
    try:
        w.run_until_connected()
        w.run(2)
        if "hraise" in opts:
            w.handler.raise_always.add("handle_message")     # the application's handler fails on every message
        if "wrap" in opts:
            w.run(4)
            w.preset_near_wrap()   # datagram, message and fragment counters cross the 16-bit wrap during the scenario
        if "by" in opts:
            add_bystander(w, mon)
            w.run(3)
        base = 0 if "oncb" in opts else len(w.all_sent)
        w.fates = FATES
        for i, (size, retry) in enumerate(msgs):
            if early and i == 0:
                if early[0] is not None:
                    ch.flag("send-raises", "send from inside the connect callback raised %s" % type(early[0]).__name__, repr(early[0]))
                continue
            e = app_send(w, mon, sender, payload(i + 1, SIZES[size]), retry)
            if e is not None:
                ch.flag("send-raises", "send raised %s" % type(e).__name__, repr(e))
        w.run(6)
        w.fates = []
        recorded = [d for d in w.all_sent[base:] if d.client_addr == w.clients[0].addr]

        def replay_point(name):
            opts = [("no replay (%s)" % name, 0)] + [("replay #%d %s at %s" % (d.id, d.src, name), 1) for d in recorded]
            c = ch.choose("replay", opts)
            if c:
                d = recorded[c - 1]
                if d.src == "s":
                    w.inject("c0", d.data, note="replay")
                else:
                    w.inject("s", d.data, client_addr=w.clients[0].addr, note="replay")

        replay_point("after-send")
        if blackout:
            # acks towards the sender are lost for a while: the sender retransmits
            w.start_blackout("s2c" if sender == "c" else "c2s", blackout)

        # lag points: a copy of the first data datagram may be replayed exactly when the receiver's newest
        # accepted datagram is L ahead of it, for every L up to 40 (window edge 31/32/33 included)
        first = next((d for d in recorded if (d.src == "s") == (sender == "s") and d.data[12] in (6, 7)), None)
        offered = set()
        lag_set = None if TIER[0] == "thorough" else {1, 31, 32, 33}

        def run_lag(n):
            for _ in range(n):
                w.tick()
                if first is None:
                    continue
                rc = w.server_conn(0) if sender == "c" else w.clients[0].conn
                if rc is None:
                    continue
                seq = struct.unpack(">H", first.data[8:10])[0]
                lag = int(rc.bitfield_pkt.current_seqnum) - seq
                if 0 < lag <= 40 and lag not in offered and (lag_set is None or lag in lag_set):
                    offered.add(lag)
                    if ch.choose("replay-lag", [("no replay at lag %d" % lag, 0), ("replay #%d at lag %d" % (first.id, lag), 1)]):
                        if first.src == "s":
                            w.inject("c0", first.data, note="replay")
                        else:
                            w.inject("s", first.data, client_addr=w.clients[0].addr, note="replay")
        if "rdisc" in opts:
            # the RECEIVING side disconnects right after it was handed the message, while the sender (whose acks are
            # lost) keeps retransmitting it: the connection object is still fed until the peer has noticed
            recv_end = "s" if sender == "c" else "c"
            w.run(20, lambda w_: sum(mon.delivered[recv_end].values()) >= 1)
            try:
                if recv_end == "c":
                    w.clients[0].client.disconnect()
                else:
                    w.server_conn(0).disconnect()
            except Exception as e:
                ch.flag("exception", "disconnect() raises %s" % type(e).__name__, repr(e))
        run_lag(80)
        if macro == "idle4":
            run_lag(256)
        elif macro == "gap40":
            # a burst loss of > 32 consecutive datagrams of the sender (one datagram per 1/50 s frame), the first datagram
            # after the gap gets through (the window has just been emptied by the jump) and an OLD recorded datagram is
            # replayed as the very next thing the receiver sees
            data_dir = "c2s" if sender == "c" else "s2c"
            w.start_blackout(data_dir, 42)
            for t in range(42):
                app_send(w, mon, sender, b"g%c" % t, "none")
                w.tick()
            # nothing more is queued: the next thing the sender emits is a lone keep-alive, the first datagram to get through
            rc_ = w.server_conn(0) if sender == "c" else w.clients[0].conn
            for t in range(14):
                if rc_ is not None and rc_.bitfield_pkt.bits == 0:
                    break
                w.tick()
            replay_point("right-after-gap")
            w.run(6)
        elif macro.startswith("walk"):
            # somebody who only knows the public header layout sends datagrams with chosen numbers and junk bodies at the
            # receiver (they fail authentication); afterwards every recorded genuine datagram is offered for replay.
            # Offsets are relative to the newest datagram number seen on the wire.
            rc_ = w.server_conn(0) if sender == "c" else w.clients[0].conn
            tmpl = next((d for d in reversed(recorded) if (d.src == "s") == (sender == "s") and len(d.data) >= 36), None)
            for off in WALKS[macro]:
                if rc_ is None or tmpl is None:
                    break
                nseq = (int(rc_.bitfield_pkt.current_seqnum) - 1 + off) % 65535 + 1
                forged = tmpl.data[:8] + struct.pack(">H", nseq) + tmpl.data[10:20] + bytes((b ^ 0x5A) for b in tmpl.data[20:])
                if sender == "s":
                    w.inject("c0", forged, note="forged header, number %+d" % off)
                else:
                    w.inject("s", forged, client_addr=w.clients[0].addr, note="forged header, number %+d" % off)
                w.tick()
        elif macro == "burst":
            k = 0
            for t in range(10):
                for j in range(30):
                    app_send(w, mon, sender, b"%c" % (k % 251), "none")
                    k += 1
                w.run(1)
            w.run(70)
        replay_point("after-" + macro)
        w.run(12)
        ch.steps = w.tickno
        ch.outcome = (tuple(sorted(mon.delivered["c"].values())), tuple(sorted(mon.delivered["s"].values())), mon.dup_drops,
                      w.clients[0].conn.stats.dropped if w.clients[0].conn else None)
        if w.exceptions:
            ch.flag("exception", "exception: %s" % w.exceptions[0][0], repr(w.exceptions[:2]))
    finally:
        for v in mon.violations:
            ch.flag(*v)
        w.close()


def resession_scenario(params, ch):
    """several sessions on the SAME UdpClient object (disconnect, connect again), messages of every kind in both directions
    in each, the application reading the way the parameter says: nothing of an earlier session is handed over again, nothing
    is handed over twice.  One recorded datagram of an earlier session may be replayed into a later one (deviation)."""
    read_mode, order, end_by = params
    mon = DeliveryMonitor()
    w = World(order=order, latency=1, chooser=ch, monitors=[mon])
    w.client_read = read_mode
    try:
        w.run_until_connected()
        w.run(2)
        old = []
        for sess in (1, 2, 3):
            mark = len(w.all_sent)
            w.fates = ["drop", "dup", "delay2"]
            for i, (size, retry) in enumerate((("small", "none"), ("small", "retry"), ("frag2", "retry"))):
                for snd, off in (("s", 0), ("c", 5)):
                    e = app_send(w, mon, snd, payload(sess * 10 + off + i, SIZES[size]), retry)
                    if e is not None:
                        ch.flag("send-raises", "send raised %s in session %d of one client object" % (type(e).__name__, sess), repr(e))
            w.run(3)
            if old:
                opts = [("no replay", 0)] + [("replay #%d (%s, earlier session) into session %d" % (d.id, d.src, sess), 1) for d in old[:12]]
                c = ch.choose("replay-old-session", opts)
                if c:
                    d = old[c - 1]
                    if d.src == "s":
                        w.inject("c0", d.data, note="replay")
                    else:
                        w.inject("s", d.data, client_addr=w.clients[0].addr, note="replay")
            w.run(8)
            w.fates = []
            w.run(40)
            old = [d for d in w.all_sent[mark:] if len(d.data) > 60][:12] + old[:4]
            if sess == 3:
                break
            if end_by == "client":
                w.clients[0].client.disconnect()
            else:
                sc = w.server_conn(0)
                if sc is not None:
                    sc.disconnect()
            w.run(8)
            w.clients[0].client.forceDisconnect()
            w.run(2)
            w.client_reconnect(0)
            w.run_until_connected()
            w.run(2)
        ch.steps = w.tickno
        ch.outcome = (tuple(sorted(mon.delivered["c"].values())), tuple(sorted(mon.delivered["s"].values())))
        if w.exceptions:
            ch.flag("exception", "exception in %s" % w.exceptions[0][0], repr(w.exceptions[:2]))
    finally:
        for v in mon.violations:
            ch.flag(*v)
        w.close()


def params_list(tier):
    out = []
    if tier == "quick":
        msg_sets = [(("small", "none"),), (("small", "best"),), (("small", "retry"),), (("frag2", "none"),), (("frag2", "retry"),),
                    (("frag2", "best"),)]
        configs = [("cs", 1)]
    else:
        msg_sets = [(("small", "none"),), (("small", "best"),), (("small", "retry"),), (("frag2", "none"),), (("frag2", "retry"),),
                    (("frag2", "best"),), (("small", "retry"), ("small", "best")), (("frag3", "retry"), ("small", "none")), (("empty", "retry"),)]
        configs = [("cs", 1), ("sc", 1), ("cs", 0), ("sc", 0)]
    for direction in ("c2s", "s2c"):
        for msgs in msg_sets:
            for macro in ("none", "idle4", "burst"):
                for order, latency in configs:
                    out.append((direction, msgs, macro, order, latency, 0))
            if any(r != "none" for _, r in msgs):
                for o in (("cs|dt60", "cs|ka0.5") if tier == "quick" else ("cs|dt60", "sc|dt60", "cs|ka0.5")):
                    out.append((direction, msgs, "none", o, 1, 0))
                    out.append((direction, msgs, "none", o, 1, 100))
            # the first message is sent from inside the client's connect callback (it travels with the challenge response)
            if direction == "c2s":
                for o in (("cs|oncb",) if tier == "quick" else ("cs|oncb", "sc|oncb", "cs|oncb|dt60")):
                    out.append((direction, msgs + (("small", "none"),), "none", o, 1, 0))
            # the server application's handle_message raises for every message (more datagrams follow: keep-alives, retries)
            if direction == "c2s":
                for o in (("cs|hraise",) if tier == "quick" else ("cs|hraise", "sc|hraise")):
                    out.append((direction, msgs + (("small", "none"), ("small", "best")), "none", o, 1, 0))
            # the receiver disconnects between the first copy and a retransmission (acks towards the sender are lost)
            if any(r != "none" for _, r in msgs):
                for o in (("cs|rdisc",) if tier == "quick" else ("cs|rdisc", "sc|rdisc", "cs|rdisc|ka0.5")):
                    out.append((direction, msgs, "none", o, 1, 100))
                    out.append((direction, msgs, "none", o, 8, 0))
            # a second client of the same server exchanges traffic of every kind all the time (shared state between connections)
            out.append((direction, msgs, "none", "cs|by", 1, 0))
            if any(r != "none" for _, r in msgs):
                out.append((direction, msgs, "none", "cs|by", 1, 100))
            # burst loss of > 32 datagrams, then a replay right behind the first datagram that gets through
            out.append((direction, msgs, "gap40", "cs|dt50", 1, 0))
            # forged headers with chosen datagram numbers ahead of the replays
            for macro in (("walk", "walk33") if tier == "quick" else ("walk", "walk33", "walk4", "walkback")):
                out.append((direction, msgs, macro, "cs", 1, 0))
            # the same with every counter a few numbers below the 16-bit wrap
            for macro in (("burst",) if tier == "quick" else ("none", "burst")):
                out.append((direction, msgs, macro, "cs|wrap", 1, 0))
                if any(r != "none" for _, r in msgs):
                    out.append((direction, msgs, macro, "cs|wrap", 1, 100))
            # round trip longer than the resend interval: retry modes put the message into several datagrams
            if any(r != "none" for _, r in msgs):
                for lat in ((8,) if tier == "quick" else (8, 20)):
                    out.append((direction, msgs, "none", "cs", lat, 0))
            # ack blackout long enough for a guaranteed retransmission, with the burst in between
            if any(r != "none" for _, r in msgs):
                out.append((direction, msgs, "burst", "cs", 1, 100))
                out.append((direction, msgs, "none", "cs", 1, 100))
                out.append((direction, msgs, "none", "sc", 0, 20))
    return out


def classify(sig, labels, params):
    """make the signature specific to the history shape (known findings are matched on it)"""
    return sig


def run(tier, seed):
    rep = core.Report()
    laps = lap.start(tier)
    plist = params_list(tier)
    if seed:
        k = seed % len(plist)
        plist = plist[k:] + plist[:k]
    bound = 2
    import os
    os.environ["_C04_TIER"] = tier
    st = explore.explore_all("checks.c04", "scenario", plist, bound,
                             time_budget=(900 if tier == "quick" else 3000))
    rs_params = [(mode, order, end_by) for mode in ("poll", "guarded", "single", "lazy3") for order in (("cs",) if tier == "quick" else ("cs", "sc")) for end_by in ("client", "server")]
    st_rs = explore.explore_all("checks.c04", "resession_scenario", rs_params, 1 if tier == "quick" else 2, time_budget=(900 if tier == "quick" else 1800))
    for v in st_rs.violations:
        rep.add_violation(core.Violation(v["oracle"], v["sig"], {"resession": True, "params": v["params"], "choices": v["choices"], "labels": v["labels"]},
                                         "%s | sessions on one client object, params=%r deviations=%r" % (v["message"], v["params"], v["labels"])))
    b3 = None
    if tier == "thorough":
        # three deviations on a few configurations (complete unless the time budget is hit; reported separately)
        sub = [p for p in plist if p[2] == "none" and p[3] == "cs" and p[4] == 1 and p[5] == 0 and len(p[1]) == 1][:6]
        st3 = explore.explore_all("checks.c04", "scenario", sub, 3, time_budget=420)
        st.violations.extend(st3.violations)
        b3 = {"configurations": len(sub), "executions": st3.executions, "by_deviations": st3.by_cost, "capped_by_time_budget": st3.capped}
    for v in st.violations:
        direction, msgs, macro, order, latency, blackout = v["params"]
        sig = v["sig"]
        rep.add_violation(core.Violation(v["oracle"], sig, {"params": v["params"], "choices": v["choices"], "labels": v["labels"]},
                                         "%s | params=%r deviations=%r" % (v["message"], v["params"], v["labels"])))
    lap_v, lap_cov = lap.collect(laps, PROPERTY)
    for v in lap_v:
        rep.add_violation(v)
    rep.coverage = {
        "long_session_part": lap_cov,
        "states": st.points, "transitions": st.steps, "traces_validated_against_impl": st.executions,
        "executions": st.executions, "executions_by_deviation_count": st.by_cost,
        "max_deviations_completed": bound if not st.capped else "capped (time budget) - see exhaustive",
        "distinct_outcomes": len(st.outcomes), "configurations": len(plist),
        "evaluations": st.executions, "distinct_nontrivial": len(st.outcomes),
        "rule": "states = nodes of the execution tree (choice points reached beyond the replayed prefix); transitions = virtual ticks executed on the real stack; "
                "every execution is an implementation execution. distinct_nontrivial = distinct final observation tuples.",
        "exhaustive": not (st.capped or st_rs.capped),
        "samples": st.samples[:4],
        "bound3_part": b3,
        "sessions_on_one_client_object_part": {"configurations": len(rs_params), "executions": st_rs.executions, "by_deviations": st_rs.by_cost, "capped": st_rs.capped,
                                               "read_patterns": ["poll", "guarded", "single", "lazy3"]},
    }
    rep.assumptions = ["payload contents from a fixed marker family", "at most %d deviations per execution; macro steps idle4/burst are honest" % bound,
                       "original and copy < 32767 datagrams apart (all histories here are < 700 datagrams)"]
    return rep


def replay(witness):
    if "lap" in witness:
        return lap.replay(witness, PROPERTY)
    if witness.get("resession"):
        ch = explore.replay_choices(resession_scenario, tuple(_tup(witness["params"])), witness["choices"])
        return [core.Violation(o, s, witness, m) for o, s, m in ch.found]
    ch = explore.replay_choices(scenario, tuple(_tup(witness["params"])), witness["choices"])
    return [core.Violation(o, s, witness, m) for o, s, m in ch.found]


def _tup(x):
    if isinstance(x, list):
        return tuple(_tup(i) for i in x)
    return x
