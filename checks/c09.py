"""C09 - wire codec round-trips; datagrams respect the MTU; packing never fails.

codec   engine C: header field combinations x message lists x {CRC, AES-GCM}
        through Packet.create / to_bytes / PacketHeader.from_bytes /
        Packet.from_bytes
packing engine A without an adversary: for a set of MTUs, every sequence of
        <=3 send() calls with lengths from the boundary set and retry modes,
        plus bursts of 254..300 tiny messages, on the client path
        (UdpClient.update) and both server paths (TwistedServer.sendPacketsUnsafe,
        UdpServerThread.send); default ticks on a perfect network until drained
"""
import itertools
import struct

from mc import core, explore
from mc.world import World, Monitor, open_datagram
from mc.pair import DeliveryMonitor, app_send, payload, quiescent

core.import_repo()
from mpgameserver.connection import (Packet, PacketHeader, PacketType, PendingMessage, SeqNum)  # noqa

PROPERTY = "C09"
LEVEL = "exploration"

KEY = bytes(range(16))
TYPES = [PacketType.UNKNOWN, PacketType.CLIENT_HELLO, PacketType.SERVER_HELLO, PacketType.CHALLENGE_RESP,
         PacketType.KEEP_ALIVE, PacketType.DISCONNECT, PacketType.APP, PacketType.APP_FRAGMENT]


# ---------------------------------------------------------------------------
# codec

def message_lists():
    """(label, [(seq, type, payload)]) - count 0,1,2,3,254,255"""
    lens = [0, 1, 2, 5]
    out = [("count0", [])]
    for L in lens + [300]:
        out.append(("count1 len%d" % L, [(7, None, (bytes(range(256)) * 2)[:L])]))
    for t1, t2 in itertools.product(TYPES, repeat=2):
        out.append(("count2 %s/%s" % (t1.value, t2.value), [(1, t1, b"ab"), (65535, t2, b"")]))
    for l1, l2, l3 in itertools.product(lens, repeat=3):
        out.append(("count3 lens %d,%d,%d" % (l1, l2, l3), [(10, PacketType.APP, b"x" * l1), (11, PacketType.APP_FRAGMENT, b"y" * l2), (256, PacketType.KEEP_ALIVE, b"z" * l3)]))
    for n in (254, 255):
        out.append(("count%d" % n, [(i + 1, PacketType.APP, b"" if i % 2 else b"q") for i in range(n)]))
    return out


def codec_work_init(tier):
    global _TIER
    _TIER = tier


def codec_work(arg):
    k, n = arg
    viols = {}
    total = 0
    nontrivial = 0
    classes = core.Counter()
    ctimes = [0, 1, 2 ** 31, 2 ** 32 - 1]
    seqs = [0, 1, 255, 256, 65535]
    bits = [0, 1, 2 ** 31, 2 ** 32 - 1, 0xAAAAAAAA]
    mls = message_lists()
    i = -1

    def flag(oracle, sig, wit, msg):
        viols.setdefault((oracle, sig), [0, wit, msg])[0] += 1

    for is_server in (False, True):
        for ctime in ctimes:
            for typ in TYPES:
                for seq, ack in itertools.product(seqs, repeat=2):
                    for ab in bits:
                        i += 1
                        if i % n != k:
                            continue
                        # thin the message lists per header combination (every list is used with many headers)
                        for j, (label, ml) in enumerate(mls):
                            if _TIER == "quick" and (i + j) % 5:
                                continue
                            for key in (None, KEY):
                                total += 1
                                wit = {"part": "codec", "isServer": is_server, "ctime": ctime, "type": typ.value, "seq": seq, "ack": ack,
                                       "ack_bits": ab, "msgs": label, "key": key is not None}
                                msgs = [PendingMessage(SeqNum(s), (t if t is not None else typ), p, None, 0) for s, t, p in ml]
                                hello_under_key = key is not None and typ in (PacketType.CLIENT_HELLO, PacketType.SERVER_HELLO)
                                try:
                                    hdr = PacketHeader.create(is_server, ctime, typ, SeqNum(seq), SeqNum(ack), ab)
                                    pkt = Packet.create(hdr, msgs)
                                    data = pkt.to_bytes(key)
                                except Exception as e:
                                    flag("encode-raises", "encoding a valid packet raises %s (%s)" % (type(e).__name__, label.split(" ")[0]), wit, repr(e))
                                    continue
                                body = len(pkt.msg)
                                if hdr.length != body or hdr.count != len(msgs):
                                    flag("length-count", "length/count fields do not describe the payload", wit, "length=%d body=%d count=%d n=%d" % (hdr.length, body, hdr.count, len(msgs)))
                                encrypted = key is not None and typ != PacketType.SERVER_HELLO
                                if len(data) != 20 + body + (16 if encrypted else 4):
                                    flag("datagram-length", "datagram length != 20 + length + tag/crc", wit, "len=%d body=%d" % (len(data), body))
                                if pkt.total_size(key) != len(data):
                                    flag("datagram-length", "total_size() disagrees with the encoded length", wit, "total_size=%d len=%d" % (pkt.total_size(key), len(data)))
                                # direction: built by X must parse with from_bytes(not X) and be refused with from_bytes(X)
                                try:
                                    PacketHeader.from_bytes(is_server, data)
                                    flag("direction", "header accepted by the side that built it (direction not enforced)", wit, "")
                                except Exception:
                                    pass
                                try:
                                    h2 = PacketHeader.from_bytes(not is_server, data)
                                    p2 = Packet.from_bytes(h2, key, data)
                                except Exception as e:
                                    if hello_under_key:
                                        classes.inc("hello-under-key:exception")
                                        continue
                                    flag("decode-raises", "decoding an encoded packet raises %s (%s, %s)" % (type(e).__name__, label.split(" ")[0], "gcm" if key else "crc"), wit, repr(e))
                                    continue
                                same_hdr = (h2.ctime == ctime and h2.pkt_type == typ and int(h2.seq) == seq and int(h2.ack) == ack and
                                            h2.ack_bits == ab and h2.length == body and h2.count == len(msgs))
                                got = [(int(m.seq), m.type, m.payload) for m in p2.msgs]
                                want = [(int(m.seq), m.type, m.payload) for m in msgs]
                                if not same_hdr or got != want:
                                    flag("round-trip", "decode(encode(p)) != p (%s, %s)" % (label.split(" ")[0], "gcm" if key else "crc"), wit,
                                         "header equal=%s; msgs %r vs %r" % (same_hdr, got[:3], want[:3]))
                                else:
                                    nontrivial += 1
                                    classes.inc("ok:" + ("gcm" if encrypted else "crc"))
    return total, nontrivial, dict(classes), viols


# ---------------------------------------------------------------------------
# packing

class SizeMonitor(Monitor):
    def __init__(self, mtu):
        Monitor.__init__(self)
        self.mtu = mtu
        self.max = 0
        self.counts = []

    def on_send(self, w, d):
        self.max = max(self.max, len(d.data))
        if len(d.data) > self.mtu - 28:
            self.flag("mtu", "datagram larger than MTU-28 handed to the socket", "%s sent %d bytes at MTU %d (limit %d)" % (d.src, len(d.data), self.mtu, self.mtu - 28))


def caps(mtu):
    P = mtu - 28 - 20 - 16 - 2
    F = 1024 if P >= 1024 + 6 else P - 6
    return P, F


def length_set(mtu):
    P, F = caps(mtu)
    return [0, 1, P - 6, P - 5, P - 1, P, P + 1, P // 2, P // 2 + 1]


def frag_length_set(mtu):
    """fragmented payloads whose LAST fragment sits at the edge of what one datagram carries"""
    P, F = caps(mtu)
    return [F + P - 7, F + P - 6, F + P - 5, F + P - 1, F + P, F + P + 1, 2 * F, 2 * F + 1, 2 * F + P - 6, 2 * F + P - 5, 2 * F + P]


def connected_or_flag(w, ch, mtu):
    """the handshake messages are queued messages like any other: over a perfect link they leave the queue at every MTU"""
    try:
        w.run_until_connected()
        return True
    except RuntimeError as e:
        if "honest handshake did not complete" not in str(e):
            raise
        c = w.clients[0].conn
        queued = [(str(getattr(m, "type", "?")), len(getattr(m, "payload", b"") or b"")) for m in list(getattr(c, "outgoing_messages", []))[:3]] if c is not None else []
        ch.flag("message-lost", "the handshake of an honest client over a perfect link does not complete at a supported MTU (a handshake message never leaves the queue, or is rejected)",
                "mtu %d: client status %s, still queued %r, datagrams so far %r" % (mtu, c.status if c is not None else None, queued, [(d.src, len(d.data)) for d in w.all_sent[:6]]))
        return False


def stall_scenario(params, ch):
    """retry-mode messages first sent on consecutive send opportunities, acks withheld, then the owner
    stalls (one long frame): everything due for resend meets in ONE packet build"""
    mtu, path, sizes, mode, stall = params
    sender = "c" if path == "client" else "s"
    mon = DeliveryMonitor(flag_delivery=False)
    sm = SizeMonitor(mtu)
    w = World(chooser=ch, monitors=[mon, sm], mtu=mtu, dt=0.02, server_send=("thread" if path == "server-thread" else "twisted"))
    try:
        if not connected_or_flag(w, ch, mtu):
            return
        w.run(2)
        w.start_blackout("s2c" if sender == "c" else "c2s", 40)   # acks are late
        queued = []
        if sizes and sizes[0] == "burst":
            # n retry-mode messages queued in ONE frame: with the acks withheld they all fall due for resend together
            _, n, L = sizes
            for i in range(n):
                data = (b"%c%c" % (i % 251, i // 251)) + b"x" * max(0, L - 2) if L >= 2 else (b"" if L == 0 else b"%c" % (i % 251))
                queued.append(data)
                e = app_send(w, mon, sender, data, mode)
                if e is not None:
                    ch.flag("send-raises", "send() raises %s" % type(e).__name__, repr(e))
            sizes = ()
        for i, L in enumerate(sizes):
            data = payload(i + 1, L)
            queued.append(data)
            e = app_send(w, mon, sender, data, mode)
            if e is not None:
                ch.flag("send-raises", "send() raises %s" % type(e).__name__, repr(e))
            w.tick()
        w.tick(dt=stall)
        w.run(3)
        w.tick(dt=stall)
        recv = "s" if sender == "c" else "c"
        w.run(150, lambda w: sum(mon.delivered[recv].values()) >= len(queued))
        ch.steps = w.tickno
        if w.exceptions:
            ch.flag("packing-raises", "exception from the %s send/update path: %s" % (path, w.exceptions[0][1].split("(")[0]), repr(w.exceptions[:2]))
        if w.baton.dead:
            ch.flag("packing-raises", "server thread died while sending", repr(w.baton.error))
        want = {}
        for d in queued:
            want[d] = want.get(d, 0) + 1
        lost = [len(d) for d, k in want.items() if mon.delivered[recv].get(d, 0) < (k if mode == "retry" else 1)]
        if lost and (mode == "retry" or len(queued) < 50):
            ch.flag("lost-message", "queued retry-mode message(s) never reached the peer after an owner stall", "lengths %r" % lost[:10])
        ch.outcome = (sm.max <= mtu - 28, len(lost))
    finally:
        for v in mon.violations + sm.violations:
            ch.flag(*v)
        w.close()


def stall_params(tier):
    out = []
    for mtu in ((1500, 512) if tier == "quick" else (1500, 1095, 512)):
        P, F = caps(mtu)
        for path in ("client", "server-twisted", "server-thread"):
            for mode in ("best", "retry"):
                for sizes in ((P, P), (P // 2 + 1, P // 2 + 1, P // 2 + 1), (P, 1, P), (3 * F + 10,), (P - 5, P - 5, 0, 1)):
                    for stall in (0.25, 0.6):
                        if tier == "quick" and stall == 0.6 and path != "client":
                            continue
                        out.append((mtu, path, sizes, mode, stall))
                for n, L in ((256, 0), (300, 0), (256, 2), (300, 1)):
                    if tier == "quick" and (path == "server-thread" or (n, L) not in ((300, 0), (256, 2))):
                        continue
                    if (L + 5) * 256 + 20 + 16 > mtu - 28:
                        continue        # 256 of them do not fit one datagram at this MTU anyway
                    out.append((mtu, path, ("burst", n, L), mode, 0.25))
    return out


def inflight_scenario(params, ch):
    """packing while something awaits its ack: k retry-mode messages have been transmitted and are still unacked (the acks
    are withheld, or the round trip is longer than a frame), then FURTHER send() calls queue new messages on the following
    frames - before the 0.1 s resend is due and in the very frame in which it is.  Every frame is judged on its own: a
    datagram emitted in a frame may not leave behind a message that was queued before the frame and that it still has room
    for (20 + sum(len) + overhead(n) + 16 <= MTU-28, n <= 255), whatever else (resends) it carries; in the end every
    queued message has reached the peer (the data direction is never disturbed)."""
    mtu, path, inflight, spread, gap, follow, latency = params
    sender = "c" if path == "client" else "s"
    recv = "s" if sender == "c" else "c"
    src_ = "c0" if sender == "c" else "s"
    mon = DeliveryMonitor(flag_delivery=False)
    sm = SizeMonitor(mtu)
    w = World(chooser=ch, monitors=[mon, sm], mtu=mtu, dt=0.02, latency=latency, server_send=("thread" if path == "server-thread" else "twisted"))
    P0 = caps(mtu)[0]
    queued = []
    seen = {"unacked": 0, "judged": 0, "resend+new": 0, "frames": 0}

    def conn_():
        return w.clients[0].conn if sender == "c" else w.server_conn(0)

    def frame(sends):
        """the application queues ``sends`` and one frame passes"""
        for L, mode in sends:
            data = payload(len(queued) + 1, L)
            queued.append(data)
            e = app_send(w, mon, sender, data, mode)
            if e is not None:
                ch.flag("send-raises", "send() raises %s" % type(e).__name__, "len %d at MTU %d: %r" % (L, mtu, e))
        c = conn_()
        before = list(c.outgoing_messages) if c is not None else []
        unacked = len(c.pending_retry_msg) if c is not None else 0
        old = set(int(s) for s in c.pending_retry_msg) if c is not None else set()
        if sends:
            seen["unacked"] = max(seen["unacked"], unacked)
        n0 = len(w.all_sent)
        w.tick()
        seen["frames"] += 1
        c = conn_()
        if c is None or not before:
            return
        ids = set(id(m) for m in before)
        left = [m for m in c.outgoing_messages if id(m) in ids]
        for d in w.all_sent[n0:]:
            if d.src != src_:
                continue
            ms = open_datagram(w, d)
            if ms is None:
                continue
            seen["judged"] += 1
            n_k = len(ms)
            s_k = sum(len(pl) for _, _t, pl in ms)
            resent = [s for s, _t, _pl in ms if s in old]
            if resent and len(resent) < n_k:
                seen["resend+new"] += 1
            for m in left:
                L = len(m.payload)
                n2 = n_k + 1
                if n2 <= 255 and L + s_k + (2 if n2 == 1 else 5 * n2) <= P0 + 2:
                    ch.flag("fit-together", "a datagram built while retry-mode messages await their ack leaves a queued message behind although it still has room for it",
                            "%s at MTU %d: %d message(s) unacked in pending_retry_msg when the frame began; the datagram of this frame carries %d message(s) / %d bytes (%d of them resends), "
                            "a %d-byte message queued before the frame stays in the queue (%d queued before, %d after; in flight %r, then %r)" % (
                                path, mtu, unacked, n_k, s_k, len(resent), L, len(before), len(c.outgoing_messages), inflight, follow))
                    return

    try:
        if not connected_or_flag(w, ch, mtu):
            return
        w.run(2)
        if inflight:
            w.start_blackout("s2c" if sender == "c" else "c2s", 30)   # the peer's acks are withheld for 0.6 s (< the 1 s message timeout)
            if spread == "together":
                frame(inflight)
            else:
                for x in inflight:
                    frame((x,))
            for _ in range(gap - 1):
                frame(())
        if follow and follow[0] == "steady":
            # steady traffic over a link whose round trip is longer than a frame: something is always awaiting its ack
            _, n, L, mode = follow
            for i in range(n):
                frame(((L, mode),))
        else:
            for sends in follow:
                frame(sends)
        for _ in range(8):
            frame(())

        def drained(w):
            return sum(mon.delivered[recv].values()) >= len(queued)
        ok = w.run(150, drained)
        w.run(3)
        ch.steps = w.tickno
        if w.exceptions:
            ch.flag("packing-raises", "exception from the %s send/update path: %s" % (path, w.exceptions[0][1].split("(")[0]), repr(w.exceptions[:2]))
        if w.baton.dead:
            ch.flag("packing-raises", "server thread died while sending", repr(w.baton.error))
        want = {}
        for d in queued:
            want[d] = want.get(d, 0) + 1
        lost = sum(max(0, n - mon.delivered[recv].get(d, 0)) for d, n in want.items())
        if lost:
            c = conn_()
            ch.flag("lost-message", "message(s) queued while retry-mode messages awaited their ack never reached the peer (the data direction is undisturbed)",
                    "%d of %d messages lost; still queued %d; path=%s mtu=%d in flight %r then %r" % (lost, len(queued), len(c.outgoing_messages) if c is not None else -1, path, mtu, inflight, follow))
        ch.outcome = (sm.max <= mtu - 28, ok, lost, min(seen["unacked"], 4), min(seen["judged"], 3), min(seen["resend+new"], 2))
        ch.info.update(seen)
    finally:
        for v in mon.violations + sm.violations:
            ch.flag(*v)
        w.close()


def inflight_params(tier):
    out = []
    mtus = (1500, 512) if tier == "quick" else (1500, 1096, 1095, 512)
    for mtu in mtus:
        P, F = caps(mtu)
        follows = [
            (((1, "none"),),),
            (((P, "none"),),),
            (((30, "best"),),),
            (((30, "retry"),),),
            (((0, "none"), (P - 5, "none")),),
            (((P // 2 + 1, "none"), (P // 2 + 1, "best"), (1, "none")),),
            (((5, "none"),), ((5, "best"),), ((P - 5, "retry"),)),
            (((P - 6, "best"),), ((1, "none"), (1, "retry"))),
            (((P + 300, "retry"),), ((7, "none"),)),
        ]
        for path in ("client", "server-twisted", "server-thread"):
            for mode in ("best", "retry"):
                for k in (1, 2, 3):
                    for size, spread in ((7, "together"), (7, "frames"), (P, "frames"), (P // 2 + 1, "frames")):
                        if k == 1 and spread == "together":
                            continue
                        inflight = tuple((size, mode) for _ in range(k))
                        for gap in (1, 4, 5, 6):
                            for fi, follow in enumerate(follows):
                                if tier == "quick":
                                    # thinned off the client path: every (k, size, gap) still meets every follow-up pattern on some path
                                    if path != "client" and (fi + gap + k + (mtu == 512) + (mode == "retry") + (path == "server-thread")) % 3:
                                        continue
                                out.append((mtu, path, inflight, spread, gap, follow, 1))
                # mixed modes in flight
                out.append((mtu, path, ((7, "best"), (P // 2, "retry"), (7, "best")), "frames", 4, (((9, "none"),), ((9, "retry"),), ((9, "best"),)), 1))
            # steady traffic, round trip of 4 / 8 frames, nothing withheld
            for latency in (2, 4):
                for L in (5, P // 2 + 1, P):
                    for mode in ("best", "retry"):
                        out.append((mtu, path, (), "frames", 0, ("steady", 24, L, mode), latency))
    return out


def scenario(params, ch):
    mtu, path, sends, burst = params
    sender = "c" if path == "client" else "s"
    mon = DeliveryMonitor(flag_delivery=False)
    sm = SizeMonitor(mtu)
    w = World(chooser=ch, monitors=[mon, sm], mtu=mtu, server_send=("thread" if path == "server-thread" else "twisted"))
    try:
        if not connected_or_flag(w, ch, mtu):
            return
        w.run(2)
        base = len(w.all_sent)
        queued = []
        for i, (L, retry) in enumerate(sends):
            data = payload(i + 1, L)
            queued.append(data)
            e = app_send(w, mon, sender, data, retry)
            if e is not None:
                ch.flag("send-raises", "send() raises %s" % type(e).__name__, "len %d at MTU %d: %r" % (L, mtu, e))
        if burst:
            n, L = burst
            for i in range(n):
                data = (b"%c" % (i % 251)) * L
                queued.append(data)
                app_send(w, mon, sender, data, "none")
        recv = "s" if sender == "c" else "c"

        def drained(w):
            return sum(mon.delivered[recv].values()) >= len(queued)
        ok = w.run(400, drained)
        w.run(3)
        ch.steps = w.tickno
        if w.exceptions:
            ch.flag("packing-raises", "exception from the %s send/update path: %s" % (path, w.exceptions[0][1].split("(")[0]), repr(w.exceptions[:2]))
        if w.baton.dead:
            ch.flag("packing-raises", "server thread died while sending", repr(w.baton.error))
        want = {}
        for d in queued:
            want[d] = want.get(d, 0) + 1
        lost = sum(max(0, n - mon.delivered[recv].get(d, 0)) for d, n in want.items())
        if lost:
            ch.flag("lost-message", "queued message(s) never reached the peer over a perfect network (%s)" % ("burst of %d x %d bytes" % burst if burst else "send sequence"),
                    "%d of %d messages lost; path=%s mtu=%d sends=%r" % (lost, len(queued), path, mtu, sends))
        # no datagram leaves behind a queued message it still has room for (all sends of this scenario are queued before
        # the first datagram is built; unretried sends only)
        if not burst and sends and all(r == "none" for _, r in sends):
            P0, _F0 = caps(mtu)
            src_ = "s" if sender == "s" else "c0"
            grams = []
            for d in w.all_sent[base:]:
                if d.src != src_:
                    continue
                ms = open_datagram(w, d)
                if ms:
                    grams.append([(t, len(pl)) for _, t, pl in ms if t in (6, 7)])
            grams = [g for g in grams if g]
            for k, g in enumerate(grams):
                n_k = len(g)
                s_k = sum(L for _, L in g)
                for later in grams[k + 1:]:
                    for t, L in later:
                        n2 = n_k + 1
                        if n2 <= 255 and L + s_k + (2 if n2 == 1 else 5 * n2) <= P0 + 2:
                            ch.flag("fit-together", "a datagram leaves a queued message behind although it still has room for it",
                                    "datagram %d carries %d message(s) / %d bytes, a later datagram carries a %d-byte message that would have fitted (MTU %d, sends %r)" % (
                                        k + 1, n_k, s_k, L, mtu, [x[0] for x in sends]))
                            break
                    else:
                        continue
                    break
        # messages that fit together travel in one datagram
        P, F = caps(mtu)
        n = len(queued)
        if n and all(len(d) <= P for d in queued):
            overhead = 0 if n == 0 else (2 if n == 1 else 5 * n)
            if 20 + sum(len(d) for d in queued) + overhead + 16 <= mtu - 28 and n <= 255:
                carrying = [d for d in w.all_sent[base:] if d.src == (sender if sender == "s" else "c0") and len(d.data) > 36 + 0 and _count(d.data) > 0 and _typ(d.data) in (6, 7)]
                if len(carrying) > 1 and not any(r != "none" for _, r in sends):
                    ch.flag("fit-together", "messages that fit one datagram were spread over several", "%d datagrams for %d messages (%r)" % (len(carrying), n, [len(d) for d in queued][:6]))
        ch.outcome = (sm.max <= mtu - 28, ok, lost)
    finally:
        for v in mon.violations + sm.violations:
            ch.flag(*v)
        w.close()


def _count(data):
    return data[15]


def _typ(data):
    return data[12]


def P_of(mtu):
    return caps(mtu)[0]


def params_list(tier):
    out = []
    mtus = [512, 1095, 1096, 1500] if tier == "quick" else [512, 513, 576, 1000, 1094, 1095, 1096, 1097, 1098, 1400, 1499, 1500]
    paths = ["client", "server-twisted", "server-thread"]
    for mtu in mtus:
        ls = length_set(mtu)
        for path in paths:
            for mode in ("none", "best", "retry"):
                maxn = 2 if (tier == "quick" or path == "server-thread") else 3
                for n in range(1, maxn + 1):
                    for combo in itertools.product(ls, repeat=n):
                        if tier == "quick" and n == 2 and mode != "none" and path != "client":
                            continue
                        out.append((mtu, path, tuple((L, mode) for L in combo), None))
            # a message that does not fit is followed by smaller ones that do
            for combo in ((P_of(mtu) // 2 + 1, P_of(mtu) // 2 + 1, 1), (P_of(mtu) - 400, P_of(mtu) - 400, 300, 300), (P_of(mtu) + 500, 24, 24, 24), (P_of(mtu), 1, P_of(mtu), 0, 1)):
                out.append((mtu, path, tuple((L, "none") for L in combo), None))
            for mode in ("none", "retry"):
                if tier == "quick" and mode == "retry" and path != "client":
                    continue
                for L in frag_length_set(mtu):
                    out.append((mtu, path, ((L, mode),), None))
                    if path == "client" or tier == "thorough":
                        out.append((mtu, path, ((1, mode), (L, mode)), None))
                        out.append((mtu, path, ((L, mode), (P_of(mtu), "none")), None))
            # mixed retry modes on one queue
            for combo in itertools.product([0, ls[4], ls[5], ls[7]], repeat=3):
                out.append((mtu, path, ((combo[0], "retry"), (combo[1], "none"), (combo[2], "best")), None))
            for n in (254, 255, 256, 257, 286, 300):
                for L in (0, 1):
                    if tier == "quick" and mtu not in (512, 1500):
                        continue
                    out.append((mtu, path, (), (n, L)))
    return out


def mtu_history_check(tier):
    """Packet.setMTU writes process-wide class attributes: the capacities after a call depend on the LAST value only,
    whatever was configured before (every ordered sequence of 2-3 values)"""
    from mpgameserver.connection import Packet
    vals = [512, 576, 800, 1000, 1089, 1095, 1096, 1400, 1500] if tier == "quick" else [512, 513, 576, 600, 800, 1000, 1089, 1090, 1095, 1096, 1097, 1200, 1400, 1499, 1500]
    viols = {}
    old = Packet.MTU
    n = 0

    def consts():
        return {k: v for k, v in vars(Packet).items() if isinstance(v, int) and not isinstance(v, bool) and k.isupper()}
    try:
        direct = {}
        for m in vals:
            Packet.setMTU(1500)
            Packet.setMTU(m)
            direct[m] = consts()
        for depth in (2, 3):
            for hist in itertools.product(vals, repeat=depth):
                n += 1
                for m in hist:
                    Packet.setMTU(m)
                got = consts()
                P, F = caps(hist[-1])
                bad = None
                if got.get("MAX_PAYLOAD_SIZE") != P or got.get("MAX_FRAGMENT_SIZE") != F:
                    bad = "MAX_PAYLOAD_SIZE=%s MAX_FRAGMENT_SIZE=%s, documented %d / %d" % (got.get("MAX_PAYLOAD_SIZE"), got.get("MAX_FRAGMENT_SIZE"), P, F)
                elif got != direct[hist[-1]]:
                    bad = "differs from a direct setMTU(%d) in %s" % (hist[-1], sorted(k for k in got if got[k] != direct[hist[-1]].get(k)))
                if bad:
                    viols.setdefault(("mtu-history", "the capacities after setMTU depend on the values configured before"), [0, {"part": "mtu-history", "history": list(hist)},
                                                                                                                       "after setMTU %s: %s" % (" -> ".join(map(str, hist)), bad)])[0] += 1
    finally:
        Packet.setMTU(old)
    return n, viols


def long_history_work(arg):
    """ONE long send history per (mtu, retry pattern) on a keyed ConnectionBase driven directly: more fragmented messages
    than the 16-bit fragment id has values (and as many message / datagram numbers), every send() followed by builds until
    the queue is drained.  No send() and no build may raise, nothing stays queued, every datagram fits, ids stay in 1..65535."""
    import struct as _st
    from mpgameserver.connection import ConnectionBase, ConnectionStatus, Packet, RetryMode
    mtu, pattern, n_msgs = arg
    viols = {}
    old = Packet.MTU
    n = 0
    try:
        Packet.setMTU(mtu)
        P, F = caps(mtu)
        t = [7000.0]
        c = ConnectionBase(False, ("10.0.0.9", 9))
        c.clock = lambda: t[0]
        c.session_key_bytes = bytes(range(16))
        c.status = ConnectionStatus.CONNECTED
        modes = {"none": [RetryMode.NONE], "mixed": [RetryMode.NONE, RetryMode.BEST_EFFORT, RetryMode.RETRY_ON_TIMEOUT]}[pattern]
        budget = mtu - 28
        for i in range(n_msgs):
            n += 1
            size = P + 1 + (i % 40)
            try:
                c.send(bytes([i & 0xFF]) * size, retry=modes[i % len(modes)])
            except Exception as e:
                viols[("packing-raises", "send() raises %s after a long history of fragmented sends" % type(e).__name__)] = [1, {"part": "long-history", "mtu": mtu, "pattern": pattern, "n": n_msgs},
                                                                                                                   "send() number %d (%d bytes, fragment id counter %r) raised %r" % (i + 1, size, getattr(c, "seq_fragment", None), e)]
                break
            for _ in range(8):
                t[0] += 1 / 60.0 + 1e-4
                try:
                    pkt = c._build_packet()
                except Exception as e:
                    viols[("packing-raises", "packet construction raises %s after a long history of fragmented sends" % type(e).__name__)] = [1, {"part": "long-history", "mtu": mtu, "pattern": pattern, "n": n_msgs}, "build after send %d raised %r" % (i + 1, e)]
                    pkt = None
                    break
                if pkt is not None:
                    if pkt.total_size(c.session_key_bytes) > budget:
                        viols[("mtu", "a datagram exceeds MTU-28 after a long history of fragmented sends")] = [1, {"part": "long-history", "mtu": mtu, "pattern": pattern, "n": n_msgs}, "after send %d: %d > %d" % (i + 1, pkt.total_size(c.session_key_bytes), budget)]
                    for m in pkt.msgs:
                        if m.type.value == 7:
                            fid = _st.unpack(">H", m.payload[:2])[0]
                            if not 1 <= fid <= 65535:
                                viols[("packing-raises", "fragment id outside 1..65535")] = [1, {"part": "long-history", "mtu": mtu, "pattern": pattern, "n": n_msgs}, "id %d" % fid]
                    # the peer acknowledges at once: nothing accumulates in the retry tables
                    for s_ in list(c.pending_acks):
                        c._handle_ack(s_)
                if not c.outgoing_messages:
                    break
            if viols:
                break
            if c.outgoing_messages:
                viols[("message-lost", "a fragment stays queued after a long history of fragmented sends")] = [1, {"part": "long-history", "mtu": mtu, "pattern": pattern, "n": n_msgs}, "after send %d: %d queued" % (i + 1, len(c.outgoing_messages))]
                break
    finally:
        Packet.setMTU(old)
    return n, viols


def live_mtu_check(tier):
    """Packet.setMTU on a process in which connections already exist (the documented remedy for a lossy path): from then on
    every datagram a live connection emits respects the NEW limit, and every message the new configuration accepts leaves
    the queue and reaches the peer.  Two keyed ConnectionBase objects, perfect link, virtual clock; the MTU changes while
    the queue is empty and nothing is in flight."""
    from mpgameserver.connection import Packet, ConnectionBase, ConnectionStatus, PacketHeader, RetryMode
    vals = [512, 800, 1095, 1096, 1500] if tier == "quick" else [512, 513, 576, 800, 1000, 1095, 1096, 1097, 1400, 1500]
    viols = {}
    KEY = bytes(range(64, 80))
    old = Packet.MTU
    n = 0

    def flag(sig, hist, msg):
        viols.setdefault(("live-mtu", sig), [0, {"part": "live-mtu", "history": list(hist)}, msg])[0] += 1
    try:
        for a, b in itertools.permutations(vals, 2):
            for warm in (False, True):
                n += 1
                Packet.setMTU(a)
                now = [7000.0]
                snd, rcv = ConnectionBase(False, ("10.0.0.9", 9)), ConnectionBase(True, ("10.0.0.9", 9))
                for c in (snd, rcv):
                    c.clock = lambda: now[0]
                    c.session_key_bytes = KEY
                    c.status = ConnectionStatus.CONNECTED
                got = []
                sizes_seen = []

                def frame():
                    now[0] += 0.02
                    for x, y, to_server in ((snd, rcv, True), (rcv, snd, False)):
                        pkt = x._build_packet()
                        if pkt is not None:
                            d = x._encode_packet(pkt)
                            if x is snd:
                                sizes_seen.append(len(d))
                            y._recv_datagram(PacketHeader.from_bytes(to_server, d), d)
                        x._check_timeout(now[0])
                    got.extend(m for _, m in rcv.incoming_messages)
                    rcv.incoming_messages = []
                    snd.incoming_messages = []
                if warm:
                    # the connection has carried traffic under the old MTU (a burst and a fragmented message), all acked
                    for i in range(6):
                        snd.send(b"w%02d" % i * 20, retry=RetryMode.NONE)
                    snd.send(b"W" * (caps(a)[0] + 50), retry=RetryMode.RETRY_ON_TIMEOUT)
                    for _ in range(40):
                        frame()
                    got[:] = []
                    sizes_seen[:] = []
                Packet.setMTU(b)
                P, F = caps(b)
                msgs = [bytes([65 + i]) * 60 for i in range(24)] + [b"p" * P, b"q" * (P + 1), b"r" * (2 * F + 3), b"s" * min(1000, P)]
                refused = []
                for m in msgs:
                    try:
                        snd.send(m, retry=RetryMode.RETRY_ON_TIMEOUT if len(m) > 100 else RetryMode.NONE)
                    except Exception as e:
                        refused.append((len(m), repr(e)))
                for _ in range(120):
                    frame()
                hist = [a, b, "warm" if warm else "fresh"]
                if refused:
                    flag("send refuses a message the configured MTU allows", hist, "after setMTU %d -> %d: %r" % (a, b, refused[:2]))
                over = [x for x in sizes_seen if x > b - 28]
                if over:
                    flag("a live connection emits datagrams above the newly configured limit", hist,
                         "after setMTU %d -> %d (%s connection): datagrams of %r bytes, limit is MTU-28 = %d" % (a, b, hist[2], sorted(set(over))[-3:], b - 28))
                missing = [len(m) for m in msgs if m not in got]
                if missing:
                    flag("a message accepted under the new MTU never reaches the peer over a perfect link", hist,
                         "after setMTU %d -> %d (%s connection): sizes %r undelivered after 2.4 s; still queued %d, awaiting retry %d" % (
                             a, b, hist[2], missing[:4], len(snd.outgoing_messages), len(snd.pending_retry_msg)))
    finally:
        Packet.setMTU(old)
    return n, viols


def run(tier, seed):
    rep = core.Report()
    n = 64
    res = core.pmap("checks.c09", "codec_work", [((k + seed) % n, n) for k in range(n)], initargs=(tier,))
    acc = {}
    total = nontrivial = 0
    classes = core.Counter()
    for t, nt, cl, viols in res:
        total += t
        nontrivial += nt
        for k, v in cl.items():
            classes.inc(k, v)
        for key, (cnt, wit, msg) in viols.items():
            if key not in acc:
                acc[key] = [0, wit, msg]
            acc[key][0] += cnt
    n_hist, hv = mtu_history_check(tier)
    for key, (cnt, wit, msg) in hv.items():
        acc[key] = [cnt, wit, msg]
    n_live, lv = live_mtu_check(tier)
    for key, (cnt, wit, msg) in lv.items():
        acc[key] = [cnt, wit, msg]
    lh_jobs = [(1500, "mixed", 65700), (512, "none", 65700)] + ([(1095, "mixed", 131200)] if tier == "thorough" else [])
    lh = core.pmap("checks.c09", "long_history_work", lh_jobs)
    n_long = sum(r[0] for r in lh)
    for r in lh:
        for key, (cnt, wit, msg) in r[1].items():
            acc.setdefault(key, [cnt, wit, msg])
    plist = params_list(tier)
    st = explore.explore_all("checks.c09", "scenario", plist, 0, time_budget=(1000 if tier == "quick" else 3600))
    sig_counts = getattr(st, "sig_counts", {})
    for v in st.violations:
        key = (v["oracle"], v["sig"])
        if key not in acc:
            acc[key] = [sig_counts.get(key, 1), {"part": "packing", "params": v["params"], "choices": v["choices"]}, v["message"] + " | params=%r" % (v["params"],)]
    splist = stall_params(tier)
    st2 = explore.explore_all("checks.c09", "stall_scenario", splist, 0, time_budget=(900 if tier == "quick" else 1800))
    for v in st2.violations:
        key = (v["oracle"], v["sig"])
        if key not in acc:
            acc[key] = [getattr(st2, "sig_counts", {}).get(key, 1), {"part": "stall", "params": v["params"], "choices": v["choices"]}, v["message"] + " | params=%r" % (v["params"],)]
    iplist = inflight_params(tier)
    st3 = explore.explore_all("checks.c09", "inflight_scenario", iplist, 0, time_budget=(900 if tier == "quick" else 1800))
    for v in st3.violations:
        key = (v["oracle"], v["sig"])
        if key not in acc:
            acc[key] = [getattr(st3, "sig_counts", {}).get(key, 1), {"part": "inflight", "params": v["params"], "choices": v["choices"]}, v["message"] + " | params=%r" % (v["params"],)]
    for (oracle, sig), (cnt, wit, msg) in sorted(acc.items()):
        rep.add_violation(core.Violation(oracle, sig, wit, "%s [%d cases]" % (msg[:400], cnt)))
    rep.coverage = {
        "evaluations": total + st.executions + st2.executions + st3.executions, "distinct_nontrivial": nontrivial + len(st.outcomes) + len(st2.outcomes) + len(st3.outcomes),
        "inflight_executions": st3.executions, "inflight_configurations": len(iplist), "inflight_frames": st3.steps, "inflight_distinct_outcomes": len(st3.outcomes), "inflight_capped": st3.capped,
        "codec_cases": total, "codec_exact_round_trips": nontrivial, "codec_classes": dict(classes),
        "stall_executions": st2.executions, "stall_configurations": len(splist),
        "packing_executions": st.executions, "packing_configurations": len(plist), "packing_ticks": st.steps, "packing_capped": st.capped, "long_history_fragmented_sends": n_long, "mtu_histories": n_hist, "mtu_changes_on_live_connections": n_live,
        "rule": "codec: isServer x 4 ctimes x 8 types x 5x5 seq/ack x 5 ack_bits x %d message lists (count 0,1,2 with all 64 inner type pairs,3,254,255) x {crc, gcm}%s; non-trivial = exact round trips. "
                "packing: MTUs x {client, server-twisted, server-thread} x every send sequence of <=2/3 lengths from {0,1,P-6,P-5,P-1,P,P+1,P/2,P/2+1} per retry mode, mixed-mode triples, bursts of 254..300 messages of 0/1 bytes; perfect network until drained. stall: retry-mode messages sent on consecutive frames with withheld acks, then one or two long frames (0.25/0.6 s) so that everything due for resend meets in one build. "
                "inflight: 1-3 retry-mode messages (7 / P/2+1 / P bytes, one frame or consecutive frames) transmitted and unacked (acks withheld 0.6 s), then further sends of every mode "
                "(0..P bytes, fragmented, one or several per frame, 1-3 frames) 1/4/5/6 frames later - before and when the 0.1 s resend is due - plus steady one-message-per-frame traffic over a round trip of 4/8 frames; "
                "every frame judged on its own: no datagram leaves behind a message queued before the frame that it still has room for, everything reaches the peer" % (
                    len(message_lists()), " (quick: every 5th list per header, rotating)" if tier == "quick" else ""),
        "exhaustive": not (st.capped or st3.capped),
        "samples": [{"codec": {"type": 6, "seq": 65535, "ack": 0, "msgs": "count255", "key": True}},
                    {"packing": {"mtu": 1095, "path": "server-thread", "sends": [[1029, "retry"], [0, "none"]]}},
                    {"packing": {"mtu": 1500, "path": "client", "burst": [286, 0]}}],
    }
    rep.assumptions = ["'fit' is defined on the wire: 20 + sum(len) + overhead(n) + 16 <= MTU-28 and n <= 255; checked for unretried sequences queued in one tick",
                       "hello types under a key: exact round trip or an exception (encode and decode sides treat the key differently by design)"]
    return rep


def replay(witness):
    if witness.get("part") == "long-history":
        n, viols = long_history_work((witness["mtu"], witness["pattern"], witness["n"]))
        return [core.Violation(o, sg, witness, v[2]) for (o, sg), v in viols.items()]
    return _replay_rest(witness)


def _replay_rest(witness):
    if witness.get("part") == "stall":
        ch = explore.replay_choices(stall_scenario, _tup(witness["params"]), witness.get("choices", []))
        return [core.Violation(o, s, witness, m) for o, s, m in ch.found]
    if witness.get("part") == "inflight":
        ch = explore.replay_choices(inflight_scenario, _tup(witness["params"]), witness.get("choices", []))
        return [core.Violation(o, s, witness, m) for o, s, m in ch.found]
    if witness.get("part") == "packing":
        ch = explore.replay_choices(scenario, _tup(witness["params"]), witness.get("choices", []))
        return [core.Violation(o, s, witness, m) for o, s, m in ch.found]
    if witness.get("part") in ("mtu-history", "live-mtu"):
        n, v = (mtu_history_check if witness["part"] == "mtu-history" else live_mtu_check)("quick")
        return [core.Violation(k[0], k[1], witness, x[2]) for k, x in v.items()]
    return []


def _tup(x):
    if isinstance(x, list):
        return tuple(_tup(i) for i in x)
    return x
