"""C08 - sequence ring and receive-window bookkeeping are exact.

Three parts:
 seqnum  engine C: for ALL a in 1..65535 and every offset d of a set D:
         b = a + d compared with integer arithmetic on the ring 1..65535
 bitfield engine B: BFS over insertion histories of the real BitField for
         widths 8, 16, 32, 256 from start positions 1, 1234, 65530 against a
         set-based reference; contains() compared on the whole neighbourhood
         after every insert
 wire    engine A: in every execution of a small two-endpoint scenario under
         <=2 deviations, every emitted header's (ack, ack_bits) must name
         exactly the accepted peer datagrams among the newest 32
"""
import copy
import collections
import struct

from mc import core, explore
from mc.world import World, Monitor
from mc.pair import DeliveryMonitor, app_send, payload

core.import_repo()
from mpgameserver.connection import SeqNum, BitField, DuplicationError  # noqa

PROPERTY = "C08"
LEVEL = "model_checking"

RING = 65535


def ring_add(a, d):
    return (a - 1 + d) % RING + 1


def ring_diff(a, b):
    """signed distance a - b on the ring, in (-RING/2, RING/2]"""
    x = (a - b) % RING
    if x > RING // 2:
        x -= RING
    return x


# ---------------------------------------------------------------------------
# part 1: SeqNum

def offsets(tier):
    base = {1, 2, 3, 31, 32, 33, 255, 256, 257, 32765, 32766, 32767, 65534 // 2}
    step = 1021 if tier == "quick" else 29
    base |= set(range(1, 32768, step))
    return sorted(d for d in base if 1 <= d <= 32767)


def seq_work_init(tier):
    global _D
    _D = offsets(tier)


def seq_work(rng):
    lo, hi = rng
    n = 0
    viols = {}

    def flag(sig, a, d, msg):
        viols.setdefault(("seqnum", sig), [0, {"part": "seqnum", "a": a, "d": d}, msg])[0] += 1

    for a in range(lo, hi):
        A = SeqNum(a)
        # a number is neither newer nor older than itself
        A2 = SeqNum(a)
        n += 1
        try:
            if A.diff(A2) != 0 or A.newer_than(A2) or (A < A2) or (A > A2):
                flag("a number compares newer/older than itself", a, 0, "a=%d: diff=%d newer_than=%s a<a=%s a>a=%s" % (a, A.diff(A2), A.newer_than(A2), A < A2, A > A2))
        except Exception as e:
            flag("comparing a number with itself raises %s" % type(e).__name__, a, 0, repr(e))
        for d in _D:
            n += 1
            want = ring_add(a, d)
            try:
                B = A + d
            except Exception as e:
                flag("a + d raises %s" % type(e).__name__, a, d, "SeqNum(%d)+%d: %r" % (a, d, e))
                continue
            if int(B) != want or int(B) == 0 or not isinstance(B, SeqNum):
                flag("a + d is wrong%s" % (" (produces 0)" if int(B) == 0 else ""), a, d, "SeqNum(%d)+%d = %d, ring says %d" % (a, d, B, want))
                continue
            if B.diff(A) != d or A.diff(B) != -d:
                flag("diff wrong for numbers less than half the ring apart", a, d, "b=%d a=%d: b.diff(a)=%d a.diff(b)=%d, d=%d" % (B, A, B.diff(A), A.diff(B), d))
            if not B.newer_than(A) or A.newer_than(B):
                flag("newer_than wrong", a, d, "b=%d a=%d d=%d" % (B, A, d))
            if not (A < B) or not (B > A) or (B < A) or (A > B):
                flag("< / > wrong", a, d, "b=%d a=%d d=%d: a<b=%s b>a=%s b<a=%s a>b=%s" % (B, A, d, A < B, B > A, B < A, A > B))
            try:
                back = B - d
                if int(back) != a:
                    flag("b - d != a", a, d, "SeqNum(%d)-%d = %d" % (B, d, back))
                down = ring_add(a, -d)
                c1, c2 = A - d, A + (-d)
                if int(c1) != down or int(c2) != down or int(c1) == 0 or int(c2) == 0:
                    flag("a - d / a + (-d) wrong%s" % (" (produces 0)" if 0 in (int(c1), int(c2)) else ""), a, d,
                         "SeqNum(%d)-%d = %d, +(-%d) = %d, ring says %d" % (a, d, c1, d, c2, down))
                elif A.diff(c1) != d or not A.newer_than(c1):
                    flag("diff wrong for numbers less than half the ring apart", a, d, "a=%d c=a-d=%d: a.diff(c)=%d" % (a, c1, A.diff(c1)))
            except Exception as e:
                flag("b - d raises %s" % type(e).__name__, a, d, repr(e))
    return n, viols


def seq_chain():
    """a + 1 over two full laps never yields 0 and visits every value in order"""
    viols = {}
    s = SeqNum()
    seen = 0
    for i in range(2 * RING + 5):
        t = s + 1
        seen += 1
        want = 1 if int(s) in (0, RING) else int(s) + 1
        if int(t) != want:
            viols[("seqnum", "successor chain wrong")] = [1, {"part": "chain", "at": int(s)}, "SeqNum(%d)+1 = %d, expected %d" % (s, t, want)]
            break
        s = t
    for bad in (RING + 1, -1, 2 ** 16):
        try:
            SeqNum(bad)
            viols[("seqnum", "constructor accepts out of range value")] = [1, {"part": "ctor", "v": bad}, "SeqNum(%d) accepted" % bad]
        except ValueError:
            pass
    return seen, viols


# ---------------------------------------------------------------------------
# part 2: BitField

class RefWindow(object):
    def __init__(self, w):
        self.w = w
        self.cur = None
        self.recv = set()

    def insert(self, s):
        """returns True if the number is a duplicate inside the window"""
        if self.cur is None:
            self.cur = s
            self.recv = {s}
            return False
        d = ring_diff(s, self.cur)
        if d > 0:
            self.cur = s
            self.recv.add(s)
            self.recv = {x for x in self.recv if 0 <= ring_diff(self.cur, x) <= self.w}
            return False
        if d == 0:
            return True
        if -d <= self.w:
            if s in self.recv:
                return True
            self.recv.add(s)
            return False
        return False  # older than the window: neither flagged nor recorded

    def contains(self, s):
        if self.cur is None:
            return False
        d = ring_diff(self.cur, s)
        return d == 0 or (0 < d <= self.w and s in self.recv)

    def key(self, start):
        return (ring_diff(self.cur, start) if self.cur is not None else None,
                tuple(sorted(ring_diff(self.cur, x) for x in self.recv)) if self.cur is not None else ())


def bf_alphabet(w):
    if w <= 8:
        offs = list(range(-w - 2, 0)) + [0] + list(range(1, w + 3)) + [w + 40, -(w + 40), 20000]
    else:
        offs = [-(w + 40), -w - 2, -w - 1, -w, -w + 1, -w // 2, -2, -1, 0, 1, 2, 3, w // 2, w - 1, w, w + 1, w + 2, w + 40, 20000]
    return offs


def bf_work(arg):
    w, start, depth = arg
    offs = bf_alphabet(w)
    bf0 = BitField(w)
    ref0 = RefWindow(w)
    viols = {}
    seen = set()
    # first insert is part of the alphabet too (start position)
    frontier = collections.deque()
    b = copy.copy(bf0)
    b.insert(SeqNum(start))
    r = RefWindow(w)
    r.insert(start)
    frontier.append((b, r, 1, ("insert %d" % start,)))
    seen.add((int(b.current_seqnum), b.bits))
    transitions = 1
    maxd = 1

    def flag(sig, hist, msg):
        viols.setdefault(("bitfield", sig), [0, {"part": "bitfield", "width": w, "history": list(hist)}, msg])[0] += 1

    while frontier:
        bf, ref, d, hist = frontier.popleft()
        if d >= depth:
            continue
        cur = int(bf.current_seqnum)
        for o in offs:
            s = ring_add(cur, o) if o >= 0 else ring_add(cur, o % RING)
            nb = copy.copy(bf)
            nr = copy.copy(ref)
            nr.recv = set(ref.recv)
            want_dup = nr.insert(s)
            transitions += 1
            h2 = hist + ("insert cur%+d (=%d)" % (o, s),)
            try:
                nb.insert(SeqNum(s))
                got_dup = False
            except DuplicationError:
                got_dup = True
            except Exception as e:
                flag("insert raises %s" % type(e).__name__, h2, repr(e))
                continue
            if got_dup != want_dup:
                flag("insert flags duplicate %s" % ("although the number was not received inside the window" if got_dup else "not, although it was received inside the window"), h2,
                     "width %d: insert(%d) dup=%s, reference %s; current=%d bits=%x" % (w, s, got_dup, want_dup, cur, bf.bits))
                continue
            if int(nb.current_seqnum) != nr.cur:
                flag("newest sequence number wrong after insert", h2, "current=%d reference %d" % (nb.current_seqnum, nr.cur))
                continue
            c2 = nr.cur
            bad = False
            for k in range(-(w + 3), w + 4):
                q = ring_add(c2, k % RING)
                if nb.contains(SeqNum(q)) != nr.contains(q):
                    flag("contains() disagrees with the set of numbers received inside the window", h2,
                         "width %d after %r: contains(%d)=%s reference %s (current %d, offset %d)" % (w, h2[-1], q, nb.contains(SeqNum(q)), nr.contains(q), c2, k))
                    bad = True
                    break
            if bad:
                continue
            key = (int(nb.current_seqnum), nb.bits)
            if key not in seen:
                seen.add(key)
                maxd = max(maxd, d + 1)
                frontier.append((nb, nr, d + 1, h2))
    return len(seen), transitions, maxd, viols, (w, start, depth)


# ---------------------------------------------------------------------------
# part 2b: the two windows as a keyed CONNECTION applies them.  Datagrams are produced by an independent encoder
# (AES-GCM called directly) with chosen datagram / message sequence numbers and handed to ConnectionBase._recv_datagram
# the way tests/connection_test.py does; a message is delivered exactly when its number was not received inside the
# 256-window, a datagram is accepted exactly when it is neither a repeat inside the 32-window nor older than it.

def conn_window_work(arg):
    import struct as _st
    from cryptography.hazmat.primitives.ciphers.aead import AESGCM
    from mpgameserver.connection import ConnectionBase, ConnectionStatus, PacketHeader, PacketType
    start, depth = arg[0], arg[1]
    # optional third element: non-default timing settings of the RECEIVING connection (the setters of UdpClient /
    # ServerContext write these attributes); the window rules do not depend on them
    cfg = dict(arg[2]) if len(arg) > 2 and arg[2] else {}
    KEY = bytes(range(16, 32))
    viols = {}
    MOFFS = [1, 2, 255, 256, 257, 300, -1, -2, -255, -256, -257, -300, 0]
    POFFS = [1]      # datagram numbers stay fresh in the message part
    total = 0
    nodes = 0

    def dgram(pseq, mseq, n):
        body = _st.pack(">H", mseq) + b"m%d" % n
        hdr = _st.pack(">4sLHHBHBL", b"FSOS", 5000, pseq, 0, PacketType.APP.value, len(body), 1, 0)
        return hdr + AESGCM(KEY).encrypt(hdr[:12], body, hdr)

    def fresh():
        c = ConnectionBase(True, ("10.0.0.8", 8))
        c.clock = lambda: 5000.5
        c.session_key_bytes = KEY
        c.status = ConnectionStatus.CONNECTED
        for k_, v_ in cfg.items():
            setattr(c, k_, v_)
        return c

    def flag(sig, hist, msg):
        if cfg:
            sig += " [receiver configured with %s]" % ", ".join("%s=%s" % kv for kv in sorted(cfg.items()))
        viols.setdefault(("conn-window", sig), [0, {"part": "conn-window", "start": start, "history": list(hist), "cfg": sorted(cfg.items())}, msg])[0] += 1

    # depth-first over message-number offset sequences; the connection is rebuilt by replaying the history
    stack = [()]
    while stack:
        hist = stack.pop()
        nodes += 1
        conn = fresh()
        ref = RefWindow(256)
        pseq = 10
        mcur = start
        ok = True
        n = 0
        seq_hist = []
        for o in ("first",) + hist:
            n += 1
            pseq += 1
            if o == "first":
                mseq = start
            else:
                mseq = ring_add(ref.cur, o) if o >= 0 else ring_add(ref.cur, o % RING)
            seq_hist.append(mseq)
            want_dup = ref.insert(mseq)
            before = len(conn.incoming_messages)
            total += 1
            try:
                d = dgram(pseq, mseq, n)
                res = conn._recv_datagram(PacketHeader.from_bytes(True, d), d)
            except Exception as e:
                flag("_recv_datagram raises %s" % type(e).__name__, seq_hist, repr(e))
                ok = False
                break
            delivered = len(conn.incoming_messages) > before
            if delivered == want_dup:
                where = "older than the 256-window" if (o != "first" and o < -256) else ("inside the window" if (o != "first" and o <= 0) else "newer than everything received")
                flag("a message %s is %s" % (where, "dropped as duplicate although its number was never received inside the window" if not delivered else
                                             "delivered although its number was already received inside the window"), seq_hist,
                     "message numbers %r: last one delivered=%s, reference duplicate=%s" % (seq_hist, delivered, want_dup))
                ok = False
                break
        if ok and len(hist) < depth:
            for o in MOFFS:
                stack.append(hist + (o,))
    # datagram window: sequences of datagram-number offsets, message numbers always fresh
    DOFFS = [1, 2, 31, 32, 33, 40, -1, -2, -31, -32, -33, -40, 0]
    stack = [((), False), ((), True)]
    while stack:
        hist, damaged = stack.pop()
        nodes += 1
        conn = fresh()
        recv = set()
        cur = None
        mseq = 100
        ok = True
        seq_hist = []
        for o in ("first",) + hist:
            mseq += 1
            if o == "first":
                p = start
            else:
                p = ring_add(cur, o) if o >= 0 else ring_add(cur, o % RING)
            seq_hist.append(p)
            if cur is None:
                want_accept = True
            else:
                dd = ring_diff(p, cur)
                want_accept = dd > 0 or (-32 <= dd < 0 and p not in recv)
            total += 1
            dropped0 = conn.stats.dropped
            try:
                d = dgram(p, mseq, mseq)
                if damaged:
                    # the same datagram arrives first with one bit of its tag flipped: it was NOT received, the windows and
                    # the verdict on the intact copy that follows must be what they would have been without it
                    bad = d[:-1] + bytes([d[-1] ^ 0x01])
                    before = len(conn.incoming_messages)
                    win0 = (int(conn.bitfield_pkt.current_seqnum), conn.bitfield_pkt.bits)
                    conn._recv_datagram(PacketHeader.from_bytes(True, bad), bad)
                    total += 1
                    if len(conn.incoming_messages) > before or (int(conn.bitfield_pkt.current_seqnum), conn.bitfield_pkt.bits) != win0:
                        flag("a datagram that fails authentication is recorded in the receive window", seq_hist + ["(damaged copy)"],
                             "datagram numbers %r: window (head, bits) %r -> %r after a damaged copy of the last one" % (
                                 seq_hist, win0, (int(conn.bitfield_pkt.current_seqnum), conn.bitfield_pkt.bits)))
                        ok = False
                        break
                    dropped0 = conn.stats.dropped
                before = len(conn.incoming_messages)
                conn._recv_datagram(PacketHeader.from_bytes(True, d), d)
            except Exception as e:
                flag("_recv_datagram raises %s" % type(e).__name__, seq_hist, repr(e))
                ok = False
                break
            accepted = len(conn.incoming_messages) > before
            if accepted != want_accept:
                flag("a datagram is %s" % ("accepted although it is a repeat inside / older than the 32-window" if accepted else "rejected although it is new inside the 32-window"),
                     seq_hist, "datagram numbers %r: last one accepted=%s, reference %s" % (seq_hist, accepted, want_accept))
                ok = False
                break
            if not accepted and conn.stats.dropped != dropped0 + 1:
                flag("a rejected datagram is not counted as dropped", seq_hist, "dropped %d -> %d" % (dropped0, conn.stats.dropped))
            if want_accept:
                if cur is None or ring_diff(p, cur) > 0:
                    cur = p
                recv.add(p)
                recv = {x for x in recv if 0 <= ring_diff(cur, x) <= 32}
        if ok and len(hist) < depth:
            for o in DOFFS:
                stack.append((hist + (o,), damaged))
    # datagrams that carry SEVERAL messages (what a sender builds when a resend and new sends meet in one packet): every
    # combination of fresh / already-received / older-than-the-window message numbers at every position of a datagram of
    # 2-3 messages.  Per message: delivered exactly when its number was not received inside the 256-window, whatever
    # travels in front of or behind it; afterwards the message window records exactly what arrived.
    def dgram_multi(pseq, items):
        if len(items) == 1:
            body = _st.pack(">H", items[0][0]) + items[0][1]
        else:
            body = b"".join(_st.pack(">HHB", len(p), s, PacketType.APP.value) + p for s, p in items)
        hdr = _st.pack(">4sLHHBHBL", b"FSOS", 5000, pseq, 0, PacketType.APP.value, len(body), len(items), 0)
        return hdr + AESGCM(KEY).encrypt(hdr[:12], body, hdr)

    def mm_flag(sig, hist, msg):
        viols.setdefault(("conn-window", sig), [0, {"part": "conn-window", "start": start, "multi": True, "history": [list(h) for h in hist]}, msg])[0] += 1

    import itertools as _it
    FULL = [1, 2, 0, -1, -2, -3, -255, -256, -257, 300]
    SMALL = [1, 0, -1, -2, -256]
    TINY = [1, 0, -1]
    level1 = [c for m in (2, 3) for c in _it.product(FULL, repeat=m)]
    small1 = set(c for m in (2, 3) for c in _it.product(SMALL, repeat=m))
    level2 = [c for c in _it.product(SMALL if depth < 4 else FULL, repeat=2)] + [c for c in _it.product(TINY if depth < 4 else SMALL, repeat=3)]
    multi_hist = multi_dgrams = multi_msgs = 0
    multi_classes = collections.Counter()
    stack = [(c,) for c in reversed(level1)]      # smallest histories first: the first witness of a kind is the simplest one
    while stack:
        hist = stack.pop()
        multi_hist += 1
        conn = fresh()
        ref = RefWindow(256)
        pseq = 20
        ok = True
        nums = []
        # the first datagram of the connection already carries two messages and leaves two gaps behind the newest number
        for di, offs_ in enumerate((("first", 3),) + hist):
            pseq += 1
            items = []
            wants = []
            for pi, o in enumerate(offs_):
                mseq = start if o == "first" else (ring_add(ref.cur, o) if o >= 0 else ring_add(ref.cur, o % RING))
                in_window = ref.cur is not None and 0 <= ring_diff(ref.cur, mseq) <= 256
                wants.append((ref.insert(mseq), in_window))
                items.append((mseq, b"h%d.%d" % (di, pi)))
            nums.append([s for s, _ in items])
            before = len(conn.incoming_messages)
            multi_dgrams += 1
            multi_msgs += len(items)
            total += 1
            try:
                d = dgram_multi(pseq, items)
                conn._recv_datagram(PacketHeader.from_bytes(True, d), d)
            except Exception as e:
                mm_flag("_recv_datagram raises %s on a datagram of several messages" % type(e).__name__, nums, repr(e))
                ok = False
                break
            handed = [p for _, p in conn.incoming_messages[before:]]
            dups = [pi for pi, (wd, _) in enumerate(wants) if wd]
            if di:
                multi_classes["%d msgs, duplicates at %s" % (len(items), ",".join(map(str, dups)) or "-")] += 1
            for pi, ((mseq, p), (want_dup, in_window)) in enumerate(zip(items, wants)):
                got = handed.count(p)
                if got == (0 if want_dup else 1):
                    continue
                if not dups or want_dup:
                    rel = "in a datagram of several messages"
                elif min(dups) < pi:
                    rel = "packed BEHIND an already-received message in one datagram"
                else:
                    rel = "packed in front of an already-received message in one datagram"
                if want_dup:
                    sig = "a message %s is delivered although its number was already received inside the window" % rel
                elif got == 0:
                    sig = "a message %s is dropped as duplicate although its number was never received %s" % (rel, "inside the window" if in_window else "(newer than / older than everything in the window)")
                else:
                    sig = "a message %s is delivered %d times" % (rel, got)
                mm_flag(sig, nums, "datagrams carry message numbers %r: message %d of the last one (number %d) handed to the application %d time(s), reference duplicate=%s (duplicates of that datagram at positions %r)" % (
                    nums, pi + 1, mseq, got, want_dup, dups))
                ok = False
                break
            if not ok:
                break
            # the window afterwards
            if int(conn.bitfield_msg.current_seqnum) != ref.cur:
                mm_flag("the newest message number is wrong after a datagram of several messages", nums, "newest=%d reference %d after %r" % (conn.bitfield_msg.current_seqnum, ref.cur, nums))
                ok = False
                break
            if len(hist) == 1:
                probe = [ring_add(ref.cur, k % RING) for k in range(-260, 4)]
            else:
                probe = sorted({ring_add(s, k % RING) for ns in nums for s in ns for k in (-1, 0, 1)} | {ring_add(ref.cur, k % RING) for k in (-258, -257, -256, -255, 1)})
            for q in probe:
                if conn.bitfield_msg.contains(SeqNum(q)) != ref.contains(q):
                    k_ = [i for i, s in enumerate(nums[-1]) if s == q]
                    behind = bool(k_) and any(x < k_[0] for x in dups)
                    mm_flag("the message window does not record exactly what arrived: a message number %s is %s" % (
                        ("that arrived BEHIND an already-received message in one datagram" if behind else "of a datagram of several messages") if ref.contains(q) else "that never arrived",
                        "not recorded as received" if ref.contains(q) else "recorded as received"), nums,
                        "datagrams carry message numbers %r: afterwards contains(%d)=%s, reference %s (newest %d)" % (nums, q, conn.bitfield_msg.contains(SeqNum(q)), ref.contains(q), ref.cur))
                    ok = False
                    break
            if not ok:
                break
            if not conn.bitfield_pkt.contains(SeqNum(pseq)):
                mm_flag("an accepted datagram of several messages is not recorded in the datagram window", nums, "datagram number %d after %r" % (pseq, nums))
                ok = False
                break
        if ok and len(hist) == 1 and hist[0] in small1:
            for c in reversed(level2):
                stack.append(hist + (c,))
    nodes += multi_hist
    return nodes, total, viols, {"histories": multi_hist, "datagrams": multi_dgrams, "messages": multi_msgs, "classes": dict(multi_classes)}


# ---------------------------------------------------------------------------
# part 3: wire ack fields

class AckMonitor(Monitor):
    def __init__(self):
        Monitor.__init__(self)
        self.accepted = {}  # serial(conn) -> list of accepted datagram seqs (in order)
        self.headers = 0
        self.nonempty = 0

    def on_recv_result(self, w, conn, hdr, datagram, result, before):
        if result:
            self.accepted.setdefault(w.serial(conn), []).append(int(hdr.seq))

    def on_send(self, w, d):
        if d.src == "x":
            return
        conn = w.clients[0].conn if d.src != "s" else (w.ctxt.connections.get(d.dst) or w.ctxt.temp_connections.get(d.dst))
        if conn is None or len(d.data) < 20:
            return
        ident, ctime, seq, ack, typ, length, count, ack_bits = struct.unpack(">4sLHHBHBL", d.data[:20])
        acc = self.accepted.get(w.serial(conn), [])
        self.headers += 1
        if not acc:
            want = set()
            if ack != 0 or ack_bits != 0:
                self.flag("wire-ack", "ack fields name datagrams although none was accepted", "ack=%d bits=%08x" % (ack, ack_bits))
            return
        newest = acc[0]
        for s in acc:
            if ring_diff(s, newest) > 0:
                newest = s
        want = {s for s in acc if 0 <= ring_diff(newest, s) <= 32}
        got = {ack} | {ring_add(ack, (-i) % RING) for i in range(1, 33) if ack_bits & (0x80000000 >> (i - 1))}
        if len(want) > 1:
            self.nonempty += 1
        if got != want:
            self.flag("wire-ack", "ack/ack_bits of an emitted header do not name exactly the accepted datagrams among the newest 32",
                      "%s header seq=%d: names %s, accepted-in-window %s" % (d.src, seq, sorted(got)[:8], sorted(want)[:8]))

    def state(self):
        return (len(self.violations),)


def scenario(params, ch):
    direction, size, retry, order, latency = params
    mon = DeliveryMonitor(flag_delivery=False)
    am = AckMonitor()
    w = World(order=order, latency=latency, chooser=ch, monitors=[mon, am])
    try:
        w.run_until_connected()
        w.fates = ["drop", "dup", "delay2", "delay8", "delay40"]
        for i in range(3):
            app_send(w, mon, direction[0], payload(i + 1, size), retry)
            w.run(3)
        w.run(8)
        w.fates = []
        w.run(60)
        ch.steps = w.tickno
        ch.outcome = (am.headers, am.nonempty)
    finally:
        for v in am.violations:
            ch.flag(*v)
        w.close()


def run(tier, seed):
    rep = core.Report()
    acc = {}

    def fold(viols):
        for key, (cnt, wit, msg) in viols.items():
            if key not in acc:
                acc[key] = [0, wit, msg]
            acc[key][0] += cnt

    # part 1
    chunk = 512
    ranges = [(lo, min(lo + chunk, RING + 1)) for lo in range(1, RING + 1, chunk)]
    res = core.pmap("checks.c08", "seq_work", ranges, initargs=(tier,))
    n_seq = sum(r[0] for r in res)
    for r in res:
        fold(r[1])
    n_chain, v = seq_chain()
    fold(v)
    # part 2
    if tier == "quick":
        plan = [(8, 5), (16, 4), (32, 4), (256, 3)]
    else:
        plan = [(8, 7), (16, 5), (32, 5), (256, 4)]
    jobs = [(w, start, depth) for (w, depth) in plan for start in (1, 1234, 65530)]
    res = core.pmap("checks.c08", "bf_work", jobs)
    bf_states = sum(r[0] for r in res)
    bf_trans = sum(r[1] for r in res)
    bf_rows = [{"width": r[4][0], "start": r[4][1], "depth": r[4][2], "states": r[0], "transitions": r[1]} for r in res]
    for r in res:
        fold(r[3])
    # part 2b
    cw_jobs = [(start, 3 if tier == "quick" else 4) for start in (1, 300, 65400, 65535)]
    # the same histories on receivers with non-default timing settings (message timeout, keep-alive interval, send interval)
    for cfg in ((("outgoing_timeout", 0.25),), (("outgoing_timeout", 0.1), ("send_keep_alive_interval", 0.5)), (("outgoing_timeout", 0.5), ("send_interval", 0.25)),
                (("outgoing_timeout", 5.0), ("send_keep_alive_interval", 0.02))):
        cw_jobs += [(start, 3, cfg) for start in ((300, 65535) if tier == "quick" else (1, 300, 65400, 65535))]
    res = core.pmap("checks.c08", "conn_window_work", cw_jobs)
    cw_nodes = sum(r[0] for r in res)
    cw_total = sum(r[1] for r in res)
    for r in res:
        fold(r[2])
    cw_multi = {"histories": sum(r[3]["histories"] for r in res), "datagrams": sum(r[3]["datagrams"] for r in res), "messages": sum(r[3]["messages"] for r in res)}
    cw_multi_classes = collections.Counter()
    for r in res:
        cw_multi_classes.update(r[3]["classes"])
    # part 3
    plist = [(d, size, retry, order, lat) for d in ("c2s", "s2c") for size, retry in ((30, "none"), (30, "best"), (1700, "retry"))
             for order, lat in ((("cs", 1), ("sc", 0)) if tier == "quick" else (("cs", 1), ("sc", 0), ("cs", 0), ("sc", 1)))]
    st = explore.explore_all("checks.c08", "scenario", plist, 2, time_budget=(900 if tier == "quick" else 1800))
    for v in st.violations:
        key = (v["oracle"], v["sig"])
        if key not in acc:
            acc[key] = [0, {"part": "wire", "params": v["params"], "choices": v["choices"], "labels": v["labels"]}, v["message"]]
        acc[key][0] += 1
    for (oracle, sig), (cnt, wit, msg) in sorted(acc.items()):
        rep.add_violation(core.Violation(oracle, sig, wit, "%s [%d cases]" % (msg, cnt)))
    rep.coverage = {
        "states": bf_states + st.points, "transitions": bf_trans + st.steps, "traces_validated_against_impl": bf_trans + st.executions,
        "seqnum_pairs": n_seq, "seqnum_offsets": len(offsets(tier)), "seqnum_chain_steps": n_chain,
        "bitfield": bf_rows, "conn_window_histories": cw_nodes, "conn_window_datagrams": cw_total,
        "conn_window_multi_message_histories": cw_multi["histories"], "conn_window_multi_message_datagrams": cw_multi["datagrams"], "conn_window_multi_message_messages": cw_multi["messages"],
        "conn_window_multi_message_classes": dict(sorted(cw_multi_classes.items())), "wire_executions": st.executions, "wire_capped": st.capped, "wire_by_deviations": st.by_cost,
        "evaluations": n_seq + bf_trans + cw_total + st.executions, "distinct_nontrivial": bf_states + len(st.outcomes),
        "rule": "seqnum: all 65535 values x %d offsets (1,2,31..33,255..257,32765..32767 and every %dth up to 32767) + successor chain over two laps; "
                "bitfield: BFS per (width, start) hashed on (newest, bits), alphabet = insert(newest+o) for offsets around 0, +-width and far jumps, contains() compared on +-(w+3) after every insert; "
                "conn-window: every sequence of <=3 (quick) / 4 message-number offsets (+-1,2,255..257,300,0) and of datagram-number offsets (+-1,2,31..33,40,0) fed to a keyed ConnectionBase as sealed datagrams, 4 start positions incl. the wrap; "
                "conn-window, several messages per datagram: after a first datagram of two messages every datagram of 2-3 messages with numbers newest+{1,2,0,-1,-2,-3,-255,-256,-257,300} at every position "
                "(fresh / already received / older than the window, duplicate first, in the middle, last), followed by every second such datagram over a smaller alphabet; per message delivered iff not received inside the window, window compared with the reference afterwards; "
                "wire: every header emitted in every <=2-deviation execution of %d configurations" % (len(offsets(tier)), 1021 if tier == "quick" else 29, len(plist)),
        "exhaustive": not st.capped,
        "samples": [{"seqnum": {"a": 65535, "d": 32767}}, {"bitfield": {"width": 8, "history": ["insert 65530", "insert cur+7", "insert cur-8", "insert cur-10"]}}] + st.samples[:2],
    }
    rep.assumptions = ["BitField: older-than-window inserts are neither flagged nor recorded (as the statement says, pinned by test_conn_handle_seq_out_of_order_33)",
                       "wire part: <=2 deviations, tick 1/64 s"]
    return rep


def replay_conn_window(witness):
    return []


def replay(witness):
    if witness.get("part") == "conn-window":
        viols = conn_window_work((witness["start"], 4, tuple(tuple(x) for x in witness.get("cfg", []))))[2]
        return [core.Violation(k[0], k[1], v[1], v[2]) for k, v in viols.items()]
    part = witness.get("part")
    if part == "seqnum":
        global _D
        _D = [witness["d"]]
        n, viols = seq_work((witness["a"], witness["a"] + 1))
        return [core.Violation(k[0], k[1], witness, v[2]) for k, v in viols.items()]
    if part == "wire":
        ch = explore.replay_choices(scenario, _tup(witness["params"]), witness["choices"])
        return [core.Violation(o, s, witness, m) for o, s, m in ch.found]
    if part == "bitfield":
        w = witness["width"]
        bf = BitField(w)
        ref = RefWindow(w)
        out = []
        for h in witness["history"]:
            s = int(h.split("=")[-1].rstrip(")")) if "=" in h else int(h.split()[-1])
            want = ref.insert(s)
            try:
                bf.insert(SeqNum(s))
                got = False
            except DuplicationError:
                got = True
            if got != want or int(bf.current_seqnum) != ref.cur:
                out.append(core.Violation("bitfield", "replayed history disagrees with the reference", witness, h))
                break
        if not out:
            for k in range(-(w + 3), w + 4):
                q = ring_add(ref.cur, k % RING)
                if bf.contains(SeqNum(q)) != ref.contains(q):
                    out.append(core.Violation("bitfield", "contains() disagrees with the set of numbers received inside the window", witness, "contains(%d)" % q))
                    break
        return out
    return []


def _tup(x):
    if isinstance(x, list):
        return tuple(_tup(i) for i in x)
    return x
