"""C03 - AES-GCM nonces never repeat; nothing but the hellos travels in clear.

Engine A on the full stack with a monitor on every datagram handed to a
socket/transport.  Send histories = every sequence of <= 2 (quick) / 3
program steps over {small messages both ways, each retry mode, fragmented,
burst of 40, idle 0.5 s / 3 s, owner stall 0.3 s / 1.2 s}, under <= 1 network
deviation, from four start states: application sends issued while the handshake is still under way ("early"); fresh handshake; both sequence counters
preset 5 below the 16-bit wrap; and a REDUCED RING (SeqNum._max_sequence = 63,
a configuration of the same code) in which every history wraps several times.
The reduced ring is used for this monitor only: two datagrams with equal seq
are >= 63 builds, i.e. > 1 s, apart exactly as with the real ring (65535/60 s).
Thorough adds one honest history that really wraps the 16-bit counter.
Start kind "slowhs": handshakes over an asymmetric slow link whose round trip is
swept frame by frame from 0.2 s to 2.3 s (1/64, 1/60, 1/50 s frames), so the
server hello meets every timer of the connecting client (re-sends, keep-alive,
the 2 s connect timeout) in some configuration; the application is quiet, sends
from inside the connect callback, or has sent before.

Oracle, per session key: the 12-byte nonces (bytes 0-11) of all encrypted
datagrams of both endpoints are pairwise distinct; every datagram emitted by an
endpoint that holds a key, except SERVER_HELLO, decrypts with AES-GCM called
directly (nonce = bytes 0-11, AAD = bytes 0-19 - so the whole header is
authenticated); the application marker never occurs in any emitted datagram.
A datagram typed CLIENT_HELLO is no exception once the client connection that
emits it holds a key (hello re-queued in the frame in which the server hello
arrived, handshake started inside a session): it is ciphertext like the rest.
"""
import itertools
import struct

from mc import core, explore, seams
from mc.world import World, Monitor
from mc.pair import app_send, DeliveryMonitor, add_bystander, RETRY

core.import_repo()
from cryptography.hazmat.primitives.ciphers.aead import AESGCM  # noqa
from mpgameserver.connection import SeqNum, PacketType, ConnectionStatus  # noqa

PROPERTY = "C03"
LEVEL = "model_checking"

MARK = b"@@C03-PLAINTEXT-MARKER@@"
SH = PacketType.SERVER_HELLO.value


def describe_clear(data):
    """for the violation text only: what a datagram that is not ciphertext gives away when it is read as a crc protected one"""
    try:
        import zlib
        length = struct.unpack(">H", data[13:15])[0]
        body = data[20:20 + length]
        if len(data) != 20 + length + 4 or struct.pack(">I", zlib.crc32(data[:20 + length]) & 0xffffffff) != data[20 + length:]:
            return "it is not a crc protected clear datagram either"
        count = data[15]
        kinds = []
        if count == 1:
            kinds.append((data[12], len(body) - 2))
        else:
            for i in range(count):
                n, _seq, t = struct.unpack(">HHB", body[:5])
                kinds.append((t, n))
                body = body[5 + n:]

        def name(t):
            try:
                return str(PacketType(t)).split(".")[-1]
            except Exception:
                return "type %d" % t
        parts = ["%s (%d bytes)" % (name(t), n) for t, n in kinds]
        text = "it reads as a CLEAR crc protected datagram carrying " + ", ".join(parts)
        if any(t == PacketType.CHALLENGE_RESP.value for t, n in kinds):
            text += ": the challenge response is readable on the wire"
        if any(t in (PacketType.APP.value, PacketType.APP_FRAGMENT.value) for t, n in kinds):
            text += ": application bytes are readable on the wire"
        return text
    except Exception as e:
        return "(not parsed: %s)" % type(e).__name__


class SlowReturn(Monitor):
    """asymmetric link: datagrams of the server take ``s2c`` ticks (the world's own latency applies client -> server)"""

    def __init__(self, s2c):
        Monitor.__init__(self)
        self.s2c = s2c

    def on_send(self, w, d):
        if d.src == "s":
            d.release_tick = d.sent_tick + self.s2c


class NonceMonitor(Monitor):
    def __init__(self):
        Monitor.__init__(self)
        self.nonces = {}   # key -> {nonce: datagram id}
        self.encrypted = 0
        self.clear = 0
        self.wraps = 0
        self.last_seq = {}
        self.keyed_hello_clear = 0
        self.keyed_hello_sealed = 0

    def sender_conn(self, w, d):
        if d.src == "s":
            return w.ctxt.connections.get(d.dst) or w.ctxt.temp_connections.get(d.dst)
        return w.clients[int(d.src[1:])].conn

    def on_send(self, w, d):
        if d.src == "x" or len(d.data) < 20:
            return
        conn = self.sender_conn(w, d)
        typ = d.data[12]
        seq = struct.unpack(">H", d.data[8:10])[0]
        if seq < self.last_seq.get(d.src, 0):
            self.wraps += 1
        self.last_seq[d.src] = seq
        if MARK in d.data:
            self.flag("plaintext", "application bytes appear in clear on the wire (packet type %d)" % typ, "%s datagram #%d type %d contains the marker" % (d.src, d.id, typ))
        key = conn.session_key_bytes if conn is not None else None
        if key is None:
            # the server side connection was already removed (final DISCONNECT): use the last key seen for that peer
            key = getattr(self, "_lastkey", {}).get(d.src if d.src != "s" else ("s", d.dst))
        else:
            self.__dict__.setdefault("_lastkey", {})[d.src if d.src != "s" else ("s", d.dst)] = key
        if key is None or typ == SH:
            self.clear += 1
            if typ not in (SH, PacketType.CLIENT_HELLO.value):
                self.flag("not-ciphertext", "a datagram other than the hellos is emitted without a session key (packet type %d)" % typ,
                          "%s datagram #%d type %d len %d" % (d.src, d.id, typ, len(d.data)))
            return
        if typ == PacketType.CLIENT_HELLO.value and conn is not None and not conn.isServer and conn.session_key_bytes:
            # (the connection object itself holds the key - not the remembered key of an earlier connection of that peer)
            # a datagram typed CLIENT_HELLO that leaves a client which already HOLDS a session key (a hello re-queued in the very
            # frame in which the server hello arrived; a handshake started inside a session): "every datagram emitted after key
            # agreement except the signed server hello" includes it - it has to be ciphertext under that key like the rest
            try:
                AESGCM(conn.session_key_bytes).decrypt(d.data[:12], d.data[20:], d.data[:20])
            except Exception:
                self.keyed_hello_clear += 1
                what = describe_clear(d.data)
                status = str(conn.status).split(".")[-1]
                self.flag("not-ciphertext", "a client that already holds the session key emits a datagram typed CLIENT_HELLO that is not AES-GCM ciphertext under that key (client %s%s)" % (
                              status, "; the challenge response travels in it" if "challenge response" in what else ""),
                          "%s datagram #%d type %d len %d, client status %s, %.3f s after the first datagram of this world; %s" % (
                              d.src, d.id, typ, len(d.data), status, w.vt.now - w.all_sent[0].sent_time, what))
                return
            self.keyed_hello_sealed += 1
        if typ == PacketType.CLIENT_HELLO.value and conn is not None and conn.status == ConnectionStatus.CONNECTING and not conn.isServer:
            self.clear += 1
            return
        length = struct.unpack(">H", d.data[13:15])[0]
        try:
            AESGCM(key).decrypt(d.data[:12], d.data[20:], d.data[:20])
            if len(d.data) != 20 + length + 16:
                raise ValueError("length")
        except Exception:
            self.flag("not-ciphertext", "a datagram emitted after key agreement is not AES-GCM ciphertext under the session key with the whole header authenticated (packet type %d)" % typ,
                      "%s datagram #%d type %d len %d" % (d.src, d.id, typ, len(d.data)))
            return
        self.encrypted += 1
        seen = self.nonces.setdefault(key, {})
        nonce = d.data[:12]
        if nonce in seen:
            self.flag("nonce-reuse", "two datagrams of one session sealed with the same nonce (%s)" % ("same direction" if True else ""),
                      "%s datagram #%d reuses the nonce of #%d: %s" % (d.src, d.id, seen[nonce], nonce.hex()))
        else:
            seen[nonce] = d.id

    def state(self):
        return (len(self.violations),)


STEPS = ["small", "best", "retry", "frag", "burst40", "idle0.5", "idle3", "long0.3", "long1.2", "stream", "fastloop", "skick", "rehello"]


def do_step(w, dm, step):
    tick = w.dt
    if step in ("small", "best", "retry"):
        mode = {"small": "none"}.get(step, step)
        app_send(w, dm, "c", MARK + b"c" + step.encode(), mode)
        app_send(w, dm, "s", MARK + b"s" + step.encode(), mode)
        w.run(3)
    elif step == "frag":
        app_send(w, dm, "c", MARK * 80, "none")
        app_send(w, dm, "s", MARK * 120, "retry")
        w.run(6)
    elif step == "burst40":
        for i in range(40):
            app_send(w, dm, "c", MARK + bytes([i]), "none")
            app_send(w, dm, "s", MARK + bytes([i]), "best")
        w.run(4)
    elif step == "stream":
        # a datagram per send opportunity in both directions for 2.4 s: wraps the reduced ring twice
        saved = w.fates
        for i in range(int(2.4 / tick)):
            if i == 8:
                w.fates = []   # deviations only on the first datagrams of the stream (keeps the choice tree small)
            app_send(w, dm, "c", MARK + b"x", "none")
            app_send(w, dm, "s", MARK + b"y", "none")
            w.tick()
        w.fates = saved
    elif step == "fastloop":
        # the owners call update every millisecond (a busy loop) with data always queued: only the protocol's own
        # send-rate cap keeps the datagram rate - and with it the time a sequence-number lap takes - above one second
        saved = w.fates
        w.fates = []
        # the reverse path is silent meanwhile, so the ack field (part of the nonce) does not move either
        w.start_blackout("s2c", 1300)
        for i in range(1300):
            if i % 4 == 0:
                app_send(w, dm, "c", MARK + b"f", "none")
            w.tick(dt=0.001)
        w.fates = saved
    elif step == "fastsilent":
        # busy-loop owners (update every millisecond) on a link that is silent in BOTH directions: nobody hears anything, the
        # ack field stands still, and whatever each end emits on its own timers is limited by the send-rate cap only
        saved = w.fates
        w.fates = []
        w.start_blackout("both", 1300)
        app_send(w, dm, "c", MARK + b"q", "best")
        app_send(w, dm, "s", MARK + b"r", "best")
        for i in range(1300):
            w.tick(dt=0.001)
        w.fates = saved
    elif step == "rehello":
        # a client starts a new handshake INSIDE the running session (its hello travels sealed) while the server has
        # application data queued and awaiting retry: that data stays sealed whatever the server answers
        app_send(w, dm, "s", MARK + b"pending-best", "best")
        w.run(1)
        app_send(w, dm, "s", MARK + b"queued-none", "none")
        app_send(w, dm, "s", MARK + b"queued-retry", "retry")
        c = w.clients[0].conn
        if c is not None:
            try:
                c._sendClientHello()
            except Exception:
                pass
        w.run(12)
    elif step == "skick":
        # the SERVER closes the session while the client still has a fragmented upload and unacked retry-mode messages
        # to emit: whatever the client sends until it has noticed stays sealed
        app_send(w, dm, "c", MARK * 400, "none")
        app_send(w, dm, "c", MARK + b"kick-best", "best")
        app_send(w, dm, "c", MARK + b"kick-retry", "retry")
        w.run(2)
        sc = w.server_conn(0)
        if sc is not None:
            sc.disconnect()
        w.run(int(1.5 / tick))
    elif step.startswith("idle"):
        w.run(int(float(step[4:]) / tick))
    elif step.startswith("long"):
        w.tick(dt=float(step[4:]))
        w.run(2)


def scenario(params, ch):
    start, program, order, latency, dt = params
    mon = NonceMonitor()
    dm = DeliveryMonitor(flag_delivery=False)
    patches = seams.Patches()
    if start.startswith("ring63"):
        patches.set(SeqNum, "_max_sequence", 63)
        patches.set(SeqNum, "_threshold", 31)
    w = None
    try:
        if start.startswith("slowhs:"):
            # a SLOW handshake: client -> server takes ``latency`` ticks, server -> client s2c ticks (swept tick by tick by
            # params_list), so the server hello reaches the client in every frame between 0.2 s and 2.3 s after its hello
            # left - every timer of the connecting client (re-sends, keep-alive, connect timeout) coincides with the arrival
            # in one configuration.  The application is quiet until it is connected ("quiet"), sends from inside the connect
            # callback ("cbsend"), or has sent before ("early").  No deviations: the link itself is the configuration.
            _, s2c, app = start.split(":")
            hs = {"ok": []}

            def on_connected(world, ce, ok):
                hs["ok"].append(ok)
                if ok and app == "cbsend":
                    for mode in ("none", "retry"):
                        data = MARK + b"from-connect-callback-" + mode.encode()
                        dm.note_sent("c", data)
                        ce.client.send(data, retry=RETRY[mode].value)
            w = World(order=order, latency=latency, chooser=ch, monitors=[SlowReturn(int(s2c)), mon, dm], dt=dt, on_connected=on_connected)
            if app == "early":
                for mode in ("none", "retry"):
                    app_send(w, dm, "c", MARK + b"early-" + mode.encode(), mode)
            total = latency + int(s2c)

            def both(w_):
                return w_.clients[0].client.connected() and w_.clients[0].addr in w_.ctxt.connections
            connected = w.run(2 * total + 40, both)
            if connected:
                # one exchange of every kind in the young session
                do_step(w, dm, "small")
                do_step(w, dm, "retry")
            w.run(int(0.6 / dt))
            if w.clients[0].client.conn is not None:
                w.clients[0].client.disconnect()
            w.run(12)
            ch.steps = w.tickno
            ch.outcome = ("slowhs", connected, tuple(hs["ok"]), mon.encrypted > 0, mon.keyed_hello_sealed > 0)
            ch.info = {"encrypted": mon.encrypted, "wraps": mon.wraps}
            return
        if start == "early":
            # the application does not wait for the connection: it sends while the handshake is still under way
            w = World(order=order, latency=max(latency, 6), chooser=ch, monitors=[mon, dm], dt=dt, fates=["drop", "delay8"])
            w.fates = ["delay8"]
            for mode in ("none", "best", "retry"):
                app_send(w, dm, "c", MARK + b"early-" + mode.encode(), mode)
            app_send(w, dm, "c", MARK * 90, "retry")
            w.run_until_connected(limit=120)
            w.fates = []
            for mode in ("none", "best"):
                app_send(w, dm, "c", MARK + b"after-" + mode.encode(), mode)
        else:
            # "two": two sessions of one client process with one server at the same time (the second one keeps exchanging
            # traffic of every kind); "resession": the same client object connects again within the same second
            ka_cfg = None
            if start.startswith("ring63ka"):
                # non-default keep-alive (= resend) interval BELOW the send interval on both ends: the send-rate cap alone
                # must keep a lap of the datagram number above one clock second
                ka_cfg = {"setKeepAliveInterval": float(start[8:])}
            w = World(n_clients=(2 if start == "two" else 1), order=order, latency=latency, chooser=ch, monitors=[mon, dm], dt=dt, server_cfg=ka_cfg, client_cfg=ka_cfg)
            w.run_until_connected()
            if start == "two":
                add_bystander(w, dm)
        w.run(2)
        if start == "near-wrap":
            w.preset_near_wrap(msg_seq=0)
        w.fates = ["drop", "dup", "delay8"]
        for step in program:
            do_step(w, dm, step)
        w.fates = []
        if start == "resession":
            w.run(4)
            w.clients[0].client.disconnect()
            w.run(4)
            w.clients[0].client.forceDisconnect()
            w.client_reconnect(0)
            w.run_until_connected()
            w.run(2)
            w.fates = ["drop", "dup", "delay8"]
            for step in program:
                if step not in ("skick", "rehello"):
                    do_step(w, dm, step)
            w.fates = []
        w.run(20)
        w.clients[0].client.disconnect()
        w.run(6)
        ch.steps = w.tickno
        ch.outcome = (mon.encrypted > 0, mon.wraps > 0, mon.clear)
        ch.info = {"encrypted": mon.encrypted, "wraps": mon.wraps}
    finally:
        for v in mon.violations:
            ch.flag(*v)
        if w is not None:
            w.close()
        patches.undo()


def long_wrap_work(arg):
    """one honest history that really wraps the 16-bit counter: 1/50 s frames, one datagram per frame per side"""
    n_ticks = arg
    mon = NonceMonitor()
    dm = DeliveryMonitor(flag_delivery=False)
    w = World(monitors=[mon, dm], dt=0.02)
    try:
        w.run_until_connected()
        for t in range(n_ticks):
            # one message per frame and side: one datagram per frame, the counter wraps after 65535 frames
            app_send(w, dm, "c", MARK, "none")
            app_send(w, dm, "s", MARK, "none")
            w.tick()
        return mon.encrypted, mon.wraps, list(mon.violations), w.tickno
    finally:
        w.close()


def params_list(tier):
    out = []
    maxlen = 2 if tier == "quick" else 3
    progs = []
    for n in range(0, maxlen + 1):
        for p in itertools.product(STEPS, repeat=n):
            if tier == "thorough" and n == 3 and sum(1 for s in p if s == "idle3") > 1:
                continue
            progs.append(p)
    for p in progs:
        if len(p) <= 1:
            out.append(("early", p, "cs", 1, 1.0 / 64))
            if tier == "thorough":
                out.append(("early", p, "sc", 0, 0.02))
    for start in ("two", "resession"):
        for p in progs:
            if len(p) > (1 if tier == "quick" else 2) or any(x in p for x in ("stream", "fastloop", "skick", "rehello", "idle3")):
                continue
            out.append((start, p, "cs", 1, 1.0 / 64))
            if tier == "thorough":
                out.append((start, p, "sc", 0, 0.02))
    for ka in ("0.0", "0.004"):
        for p in (("fastsilent",), ("fastloop",), ("idle0.5", "fastsilent")):
            out.append(("ring63ka" + ka, p, "cs", 1, 1.0 / 64))
            if tier == "thorough":
                out.append(("ring63ka" + ka, p, "sc", 0, 0.02))
    for start in ("fresh", "near-wrap", "ring63"):
        for p in progs:
            if "skick" in p and p[-1] != "skick" or p.count("skick") > 1:
                continue
            if "rehello" in p and (p[-1] != "rehello" or p.count("rehello") > 1 or "skick" in p):
                continue
            if "stream" in p and (start != "ring63" or p.count("stream") > 1 or (tier == "quick" and p[0] != "stream")):
                continue
            if "fastloop" in p and (start != "ring63" or p.count("fastloop") > 1 or (tier == "quick" and len(p) > 1 and p[0] != "fastloop" and not (p[0].startswith(("idle", "long")) and p[1] == "fastloop")) or "stream" in p):
                continue
            cfgs = [("cs", 1, 1.0 / 64)]
            if start == "ring63":
                cfgs.append(("cs", 1, 0.02))   # frame > send_interval: one datagram per frame, fastest wrap
            if tier == "thorough" and len(p) <= 2:
                cfgs += [("sc", 0, 1.0 / 64), ("cs", 0, 1.0 / 60)]
            for order, latency, dt in cfgs:
                out.append((start, p, order, latency, dt))
    out += slow_handshake_params(tier)
    return out


def slow_handshake_params(tier):
    """handshakes whose round trip is swept tick by tick: client -> server 1 tick (thorough: also 8), server -> client every
    number of ticks that makes the total 0.2 s ... 2.3 s (past the 2 s connect timeout of either end), at every frame length
    the file uses, three application behaviours (quick: client turn first, "early" at 1/64 s only; thorough: both turn orders)"""
    out = []
    for dt in (1.0 / 64, 1.0 / 60, 0.02):
        for c2s in ((1,) if tier == "quick" else (1, 8)):
            for s2c in range(max(1, int(0.2 / dt) - c2s), int(2.3 / dt) + 1):
                for order in (("cs",) if tier == "quick" else ("cs", "sc")):
                    for app in ("quiet", "cbsend", "early"):
                        if tier == "quick" and app == "early" and dt != 1.0 / 64:
                            continue
                        out.append(("slowhs:%d:%s" % (s2c, app), (), order, c2s, dt))
    return out


# ---------------------------------------------------------------------------
# part "direct": a keyed ConnectionBase driven the way tests/connection_test.py drives it (send + _build_packet +
# _encode_packet) with a harness-owned clock.  The owner may call as often as it likes and the clock need not move
# between two calls (coarse or cached clocks): clock-step patterns x call patterns, on the reduced ring.

DIRECT_STEPS = [0.0, 1e-9, 1e-4, 1.0 / 120, 1.0 / 60, 1.0 / 60 + 1e-9, 0.02, 0.25, 1.0]


def direct_work(arg):
    from mpgameserver.connection import ConnectionBase
    is_server, pattern, calls_per_reading, total = arg
    viols = {}
    patches = seams.Patches()
    patches.set(SeqNum, "_max_sequence", 63)
    patches.set(SeqNum, "_threshold", 31)
    emitted = 0
    try:
        now = [5000.25]
        conn = ConnectionBase(is_server, ("10.0.0.9", 9))
        conn.clock = lambda: now[0]
        conn.session_key_bytes = bytes(range(16))
        conn.status = ConnectionStatus.CONNECTED
        nonces = {}
        k = 0
        for i in range(total):
            now[0] += pattern[i % len(pattern)]
            for j in range(calls_per_reading):
                k += 1
                conn.send(MARK + b"%d" % k)
                pkt = conn._build_packet()
                if pkt is None:
                    continue
                data = conn._encode_packet(pkt)
                emitted += 1
                nonce = bytes(data[:12])
                if nonce in nonces:
                    viols.setdefault(("nonce-reuse", "a connection driven directly (send + _build_packet, clock not always moving between calls) seals two datagrams with the same nonce"),
                                     [0, {"part": "direct", "arg": list(arg)}, "datagram #%d reuses the nonce of #%d (%s); clock steps %r, %d calls per reading" % (
                                         emitted, nonces[nonce], nonce.hex(), pattern, calls_per_reading)])[0] += 1
                nonces[nonce] = emitted
                try:
                    AESGCM(conn.session_key_bytes).decrypt(data[:12], data[20:], data[:20])
                except Exception:
                    viols.setdefault(("not-gcm", "a datagram built by a keyed connection does not decrypt with header as AAD (direct drive)"), [0, {"part": "direct", "arg": list(arg)}, data[:20].hex()])[0] += 1
                if MARK in data:
                    viols.setdefault(("cleartext", "application bytes in clear (direct drive)"), [0, {"part": "direct", "arg": list(arg)}, ""])[0] += 1
    finally:
        patches.undo()
    return emitted, viols


def direct_jobs(tier):
    jobs = []
    pats = [(d,) for d in DIRECT_STEPS] + [(0.0, 0.0, 0.0, 0.02), (1e-9, 0.0, 1.0 / 60), (0.0, 1.0), (1.0 / 60, 0.0)]
    for is_server in (False, True):
        for pattern in pats:
            for cpr in (1, 3):
                total = 400 if tier == "quick" else 2000
                jobs.append((is_server, pattern, cpr, total))
    return jobs


def run(tier, seed):
    rep = core.Report()
    plist = params_list(tier)
    if seed:
        k = seed % len(plist)
        plist = plist[k:] + plist[:k]
    st = explore.explore_all("checks.c03", "scenario", plist, 1, time_budget=(1000 if tier == "quick" else 4800))
    acc = {}
    sig_counts = getattr(st, "sig_counts", {})
    for v in st.violations:
        key = (v["oracle"], v["sig"])
        if key not in acc:
            acc[key] = [sig_counts.get(key, 1), {"part": "histories", "params": v["params"], "choices": v["choices"], "labels": v["labels"]},
                        v["message"] + " | params=%r deviations=%r" % (v["params"], v["labels"])]
    djobs = direct_jobs(tier)
    d_emitted = 0
    for emitted, viols in core.pmap("checks.c03", "direct_work", djobs):
        d_emitted += emitted
        for key, (cnt, wit, msg) in viols.items():
            if key not in acc:
                acc[key] = [0, wit, msg]
            acc[key][0] += cnt
    long_rows = []
    if tier == "thorough":
        res = core.pmap("checks.c03", "long_wrap_work", [140000])
        for enc, wraps, viols, ticks in res:
            long_rows.append({"ticks": ticks, "encrypted_datagrams": enc, "wraps": wraps})
            for o, s, m in viols:
                acc.setdefault((o, s), [0, {"part": "long-wrap"}, m])[0] += 1
            if wraps < 2:
                acc[("vacuity", "the long history did not wrap the 16-bit counter")] = [1, {"part": "long-wrap"}, "wraps=%d" % wraps]
    for (oracle, sig), (cnt, wit, msg) in sorted(acc.items()):
        rep.add_violation(core.Violation(oracle, sig, wit, "%s [%d cases]" % (msg[:400], cnt)))
    wrapped = sum(1 for s in st.outcomes)  # distinct outcomes
    rep.coverage = {
        "states": st.points, "transitions": st.steps, "traces_validated_against_impl": st.executions,
        "executions": st.executions, "by_deviations": st.by_cost, "configurations": len(plist), "capped": st.capped,
        "distinct_outcomes": len(st.outcomes), "long_wrap_histories": long_rows, "direct_drive_configurations": len(djobs), "direct_drive_datagrams": d_emitted,
        "slow_handshake_configurations": sum(1 for p in plist if p[0].startswith("slowhs:")),
        "slow_handshake_round_trips_s": "0.2 .. 2.3 in steps of one frame (1/64, 1/60, 1/50 s)",
        "evaluations": st.executions, "distinct_nontrivial": len(st.outcomes),
        "rule": "histories = all programs of <=%d steps over %r x start states {early sends during the handshake, fresh, both counters preset to 65530, reduced ring 63} x <=1 deviation (drop/dup/delay8 of any datagram); "
                "every emitted datagram is checked by the monitor (reference AES-GCM decrypt with the 20-byte header as AAD, nonce table per session key, plaintext marker); outcomes = (encrypted seen, wrapped, #clear datagrams); plus direct drive of a keyed ConnectionBase (send + _build_packet) under clock-step patterns incl. a clock that does not move between calls" % (
                    2 if tier == "quick" else 3, STEPS),
        "exhaustive": not st.capped, "samples": st.samples[:4],
    }
    rep.assumptions = ["non-decreasing clock; frames of 1/64, 1/60 and 1/50 s, plus a 1 kHz busy loop (step 'fastloop') in which only the protocol's send-rate cap limits the datagram rate",
                       "reduced ring (63) is a configuration of the same code and is used for this monitor only (argument in DESIGN.md / module docstring)"]
    return rep


def replay(witness):
    if witness.get("part") == "histories":
        ch = explore.replay_choices(scenario, _tup(witness["params"]), witness["choices"])
        return [core.Violation(o, s, witness, m) for o, s, m in ch.found]
    if witness.get("part") == "direct":
        a = witness["arg"]
        emitted, viols = direct_work((a[0], tuple(a[1]), a[2], a[3]))
        return [core.Violation(k[0], k[1], witness, v[2]) for k, v in viols.items()]
    return []


def _tup(x):
    if isinstance(x, list):
        return tuple(_tup(i) for i in x)
    return x
