"""C03 - AES-GCM nonces never repeat; nothing but the hellos travels in clear.

Engine A on the full stack with a monitor on every datagram handed to a
socket/transport.  Send histories = every sequence of <= 2 (quick) / 3
program steps over {small messages both ways, each retry mode, fragmented,
burst of 40, idle 0.5 s / 3 s, owner stall 0.3 s / 1.2 s}, under <= 1 network
deviation, from four start states: application sends issued while the handshake is still under way ("early"); fresh handshake; both sequence counters
preset 5 below the 16-bit wrap; and a REDUCED RING (SeqNum._max_sequence = 63,
a configuration of the same code) in which every history wraps several times.
The reduced ring is used for this monitor only: two datagrams with equal seq
are >= 63 builds, i.e. > 1 s, apart exactly as with the real ring (65535/60 s).
Thorough adds one honest history that really wraps the 16-bit counter.

Oracle, per session key: the 12-byte nonces (bytes 0-11) of all encrypted
datagrams of both endpoints are pairwise distinct; every datagram emitted by an
endpoint that holds a key, except SERVER_HELLO, decrypts with AES-GCM called
directly (nonce = bytes 0-11, AAD = bytes 0-19 - so the whole header is
authenticated); the application marker never occurs in any emitted datagram.
"""
import itertools
import struct

from mc import core, explore, seams
from mc.world import World, Monitor
from mc.pair import app_send, DeliveryMonitor, add_bystander

core.import_repo()
from cryptography.hazmat.primitives.ciphers.aead import AESGCM  # noqa
from mpgameserver.connection import SeqNum, PacketType, ConnectionStatus  # noqa

PROPERTY = "C03"
LEVEL = "model_checking"

MARK = b"@@C03-PLAINTEXT-MARKER@@"
SH = PacketType.SERVER_HELLO.value


class NonceMonitor(Monitor):
    def __init__(self):
        Monitor.__init__(self)
        self.nonces = {}   # key -> {nonce: datagram id}
        self.encrypted = 0
        self.clear = 0
        self.wraps = 0
        self.last_seq = {}

    def sender_conn(self, w, d):
        if d.src == "s":
            return w.ctxt.connections.get(d.dst) or w.ctxt.temp_connections.get(d.dst)
        return w.clients[int(d.src[1:])].conn

    def on_send(self, w, d):
        if d.src == "x" or len(d.data) < 20:
            return
        conn = self.sender_conn(w, d)
        typ = d.data[12]
        seq = struct.unpack(">H", d.data[8:10])[0]
        if seq < self.last_seq.get(d.src, 0):
            self.wraps += 1
        self.last_seq[d.src] = seq
        if MARK in d.data:
            self.flag("plaintext", "application bytes appear in clear on the wire (packet type %d)" % typ, "%s datagram #%d type %d contains the marker" % (d.src, d.id, typ))
        key = conn.session_key_bytes if conn is not None else None
        if key is None:
            # the server side connection was already removed (final DISCONNECT): use the last key seen for that peer
            key = getattr(self, "_lastkey", {}).get(d.src if d.src != "s" else ("s", d.dst))
        else:
            self.__dict__.setdefault("_lastkey", {})[d.src if d.src != "s" else ("s", d.dst)] = key
        if key is None or typ == SH:
            self.clear += 1
            if typ not in (SH, PacketType.CLIENT_HELLO.value):
                self.flag("not-ciphertext", "a datagram other than the hellos is emitted without a session key (packet type %d)" % typ,
                          "%s datagram #%d type %d len %d" % (d.src, d.id, typ, len(d.data)))
            return
        if typ == PacketType.CLIENT_HELLO.value and conn is not None and conn.status == ConnectionStatus.CONNECTING and not conn.isServer:
            self.clear += 1
            return
        length = struct.unpack(">H", d.data[13:15])[0]
        try:
            AESGCM(key).decrypt(d.data[:12], d.data[20:], d.data[:20])
            if len(d.data) != 20 + length + 16:
                raise ValueError("length")
        except Exception:
            self.flag("not-ciphertext", "a datagram emitted after key agreement is not AES-GCM ciphertext under the session key with the whole header authenticated (packet type %d)" % typ,
                      "%s datagram #%d type %d len %d" % (d.src, d.id, typ, len(d.data)))
            return
        self.encrypted += 1
        seen = self.nonces.setdefault(key, {})
        nonce = d.data[:12]
        if nonce in seen:
            self.flag("nonce-reuse", "two datagrams of one session sealed with the same nonce (%s)" % ("same direction" if True else ""),
                      "%s datagram #%d reuses the nonce of #%d: %s" % (d.src, d.id, seen[nonce], nonce.hex()))
        else:
            seen[nonce] = d.id

    def state(self):
        return (len(self.violations),)


STEPS = ["small", "best", "retry", "frag", "burst40", "idle0.5", "idle3", "long0.3", "long1.2", "stream", "fastloop", "skick", "rehello"]


def do_step(w, dm, step):
    tick = w.dt
    if step in ("small", "best", "retry"):
        mode = {"small": "none"}.get(step, step)
        app_send(w, dm, "c", MARK + b"c" + step.encode(), mode)
        app_send(w, dm, "s", MARK + b"s" + step.encode(), mode)
        w.run(3)
    elif step == "frag":
        app_send(w, dm, "c", MARK * 80, "none")
        app_send(w, dm, "s", MARK * 120, "retry")
        w.run(6)
    elif step == "burst40":
        for i in range(40):
            app_send(w, dm, "c", MARK + bytes([i]), "none")
            app_send(w, dm, "s", MARK + bytes([i]), "best")
        w.run(4)
    elif step == "stream":
        # a datagram per send opportunity in both directions for 2.4 s: wraps the reduced ring twice
        saved = w.fates
        for i in range(int(2.4 / tick)):
            if i == 8:
                w.fates = []   # deviations only on the first datagrams of the stream (keeps the choice tree small)
            app_send(w, dm, "c", MARK + b"x", "none")
            app_send(w, dm, "s", MARK + b"y", "none")
            w.tick()
        w.fates = saved
    elif step == "fastloop":
        # the owners call update every millisecond (a busy loop) with data always queued: only the protocol's own
        # send-rate cap keeps the datagram rate - and with it the time a sequence-number lap takes - above one second
        saved = w.fates
        w.fates = []
        # the reverse path is silent meanwhile, so the ack field (part of the nonce) does not move either
        w.start_blackout("s2c", 1300)
        for i in range(1300):
            if i % 4 == 0:
                app_send(w, dm, "c", MARK + b"f", "none")
            w.tick(dt=0.001)
        w.fates = saved
    elif step == "rehello":
        # a client starts a new handshake INSIDE the running session (its hello travels sealed) while the server has
        # application data queued and awaiting retry: that data stays sealed whatever the server answers
        app_send(w, dm, "s", MARK + b"pending-best", "best")
        w.run(1)
        app_send(w, dm, "s", MARK + b"queued-none", "none")
        app_send(w, dm, "s", MARK + b"queued-retry", "retry")
        c = w.clients[0].conn
        if c is not None:
            try:
                c._sendClientHello()
            except Exception:
                pass
        w.run(12)
    elif step == "skick":
        # the SERVER closes the session while the client still has a fragmented upload and unacked retry-mode messages
        # to emit: whatever the client sends until it has noticed stays sealed
        app_send(w, dm, "c", MARK * 400, "none")
        app_send(w, dm, "c", MARK + b"kick-best", "best")
        app_send(w, dm, "c", MARK + b"kick-retry", "retry")
        w.run(2)
        sc = w.server_conn(0)
        if sc is not None:
            sc.disconnect()
        w.run(int(1.5 / tick))
    elif step.startswith("idle"):
        w.run(int(float(step[4:]) / tick))
    elif step.startswith("long"):
        w.tick(dt=float(step[4:]))
        w.run(2)


def scenario(params, ch):
    start, program, order, latency, dt = params
    mon = NonceMonitor()
    dm = DeliveryMonitor(flag_delivery=False)
    patches = seams.Patches()
    if start == "ring63":
        patches.set(SeqNum, "_max_sequence", 63)
        patches.set(SeqNum, "_threshold", 31)
    w = None
    try:
        if start == "early":
            # the application does not wait for the connection: it sends while the handshake is still under way
            w = World(order=order, latency=max(latency, 6), chooser=ch, monitors=[mon, dm], dt=dt, fates=["drop", "delay8"])
            w.fates = ["delay8"]
            for mode in ("none", "best", "retry"):
                app_send(w, dm, "c", MARK + b"early-" + mode.encode(), mode)
            app_send(w, dm, "c", MARK * 90, "retry")
            w.run_until_connected(limit=120)
            w.fates = []
            for mode in ("none", "best"):
                app_send(w, dm, "c", MARK + b"after-" + mode.encode(), mode)
        else:
            # "two": two sessions of one client process with one server at the same time (the second one keeps exchanging
            # traffic of every kind); "resession": the same client object connects again within the same second
            w = World(n_clients=(2 if start == "two" else 1), order=order, latency=latency, chooser=ch, monitors=[mon, dm], dt=dt)
            w.run_until_connected()
            if start == "two":
                add_bystander(w, dm)
        w.run(2)
        if start == "near-wrap":
            w.preset_near_wrap(msg_seq=0)
        w.fates = ["drop", "dup", "delay8"]
        for step in program:
            do_step(w, dm, step)
        w.fates = []
        if start == "resession":
            w.run(4)
            w.clients[0].client.disconnect()
            w.run(4)
            w.clients[0].client.forceDisconnect()
            w.client_reconnect(0)
            w.run_until_connected()
            w.run(2)
            w.fates = ["drop", "dup", "delay8"]
            for step in program:
                if step not in ("skick", "rehello"):
                    do_step(w, dm, step)
            w.fates = []
        w.run(20)
        w.clients[0].client.disconnect()
        w.run(6)
        ch.steps = w.tickno
        ch.outcome = (mon.encrypted > 0, mon.wraps > 0, mon.clear)
        ch.info = {"encrypted": mon.encrypted, "wraps": mon.wraps}
    finally:
        for v in mon.violations:
            ch.flag(*v)
        if w is not None:
            w.close()
        patches.undo()


def long_wrap_work(arg):
    """one honest history that really wraps the 16-bit counter: 1/50 s frames, one datagram per frame per side"""
    n_ticks = arg
    mon = NonceMonitor()
    dm = DeliveryMonitor(flag_delivery=False)
    w = World(monitors=[mon, dm], dt=0.02)
    try:
        w.run_until_connected()
        for t in range(n_ticks):
            # one message per frame and side: one datagram per frame, the counter wraps after 65535 frames
            app_send(w, dm, "c", MARK, "none")
            app_send(w, dm, "s", MARK, "none")
            w.tick()
        return mon.encrypted, mon.wraps, list(mon.violations), w.tickno
    finally:
        w.close()


def params_list(tier):
    out = []
    maxlen = 2 if tier == "quick" else 3
    progs = []
    for n in range(0, maxlen + 1):
        for p in itertools.product(STEPS, repeat=n):
            if tier == "thorough" and n == 3 and sum(1 for s in p if s == "idle3") > 1:
                continue
            progs.append(p)
    for p in progs:
        if len(p) <= 1:
            out.append(("early", p, "cs", 1, 1.0 / 64))
            if tier == "thorough":
                out.append(("early", p, "sc", 0, 0.02))
    for start in ("two", "resession"):
        for p in progs:
            if len(p) > (1 if tier == "quick" else 2) or any(x in p for x in ("stream", "fastloop", "skick", "rehello", "idle3")):
                continue
            out.append((start, p, "cs", 1, 1.0 / 64))
            if tier == "thorough":
                out.append((start, p, "sc", 0, 0.02))
    for start in ("fresh", "near-wrap", "ring63"):
        for p in progs:
            if "skick" in p and p[-1] != "skick" or p.count("skick") > 1:
                continue
            if "rehello" in p and (p[-1] != "rehello" or p.count("rehello") > 1 or "skick" in p):
                continue
            if "stream" in p and (start != "ring63" or p.count("stream") > 1 or (tier == "quick" and p[0] != "stream")):
                continue
            if "fastloop" in p and (start != "ring63" or p.count("fastloop") > 1 or (tier == "quick" and len(p) > 1 and p[0] != "fastloop" and not (p[0].startswith(("idle", "long")) and p[1] == "fastloop")) or "stream" in p):
                continue
            cfgs = [("cs", 1, 1.0 / 64)]
            if start == "ring63":
                cfgs.append(("cs", 1, 0.02))   # frame > send_interval: one datagram per frame, fastest wrap
            if tier == "thorough" and len(p) <= 2:
                cfgs += [("sc", 0, 1.0 / 64), ("cs", 0, 1.0 / 60)]
            for order, latency, dt in cfgs:
                out.append((start, p, order, latency, dt))
    return out


# ---------------------------------------------------------------------------
# part "direct": a keyed ConnectionBase driven the way tests/connection_test.py drives it (send + _build_packet +
# _encode_packet) with a harness-owned clock.  The owner may call as often as it likes and the clock need not move
# between two calls (coarse or cached clocks): clock-step patterns x call patterns, on the reduced ring.

DIRECT_STEPS = [0.0, 1e-9, 1e-4, 1.0 / 120, 1.0 / 60, 1.0 / 60 + 1e-9, 0.02, 0.25, 1.0]


def direct_work(arg):
    from mpgameserver.connection import ConnectionBase
    is_server, pattern, calls_per_reading, total = arg
    viols = {}
    patches = seams.Patches()
    patches.set(SeqNum, "_max_sequence", 63)
    patches.set(SeqNum, "_threshold", 31)
    emitted = 0
    try:
        now = [5000.25]
        conn = ConnectionBase(is_server, ("10.0.0.9", 9))
        conn.clock = lambda: now[0]
        conn.session_key_bytes = bytes(range(16))
        conn.status = ConnectionStatus.CONNECTED
        nonces = {}
        k = 0
        for i in range(total):
            now[0] += pattern[i % len(pattern)]
            for j in range(calls_per_reading):
                k += 1
                conn.send(MARK + b"%d" % k)
                pkt = conn._build_packet()
                if pkt is None:
                    continue
                data = conn._encode_packet(pkt)
                emitted += 1
                nonce = bytes(data[:12])
                if nonce in nonces:
                    viols.setdefault(("nonce-reuse", "a connection driven directly (send + _build_packet, clock not always moving between calls) seals two datagrams with the same nonce"),
                                     [0, {"part": "direct", "arg": list(arg)}, "datagram #%d reuses the nonce of #%d (%s); clock steps %r, %d calls per reading" % (
                                         emitted, nonces[nonce], nonce.hex(), pattern, calls_per_reading)])[0] += 1
                nonces[nonce] = emitted
                try:
                    AESGCM(conn.session_key_bytes).decrypt(data[:12], data[20:], data[:20])
                except Exception:
                    viols.setdefault(("not-gcm", "a datagram built by a keyed connection does not decrypt with header as AAD (direct drive)"), [0, {"part": "direct", "arg": list(arg)}, data[:20].hex()])[0] += 1
                if MARK in data:
                    viols.setdefault(("cleartext", "application bytes in clear (direct drive)"), [0, {"part": "direct", "arg": list(arg)}, ""])[0] += 1
    finally:
        patches.undo()
    return emitted, viols


def direct_jobs(tier):
    jobs = []
    pats = [(d,) for d in DIRECT_STEPS] + [(0.0, 0.0, 0.0, 0.02), (1e-9, 0.0, 1.0 / 60), (0.0, 1.0), (1.0 / 60, 0.0)]
    for is_server in (False, True):
        for pattern in pats:
            for cpr in (1, 3):
                total = 400 if tier == "quick" else 2000
                jobs.append((is_server, pattern, cpr, total))
    return jobs


def run(tier, seed):
    rep = core.Report()
    plist = params_list(tier)
    if seed:
        k = seed % len(plist)
        plist = plist[k:] + plist[:k]
    st = explore.explore_all("checks.c03", "scenario", plist, 1, time_budget=(1000 if tier == "quick" else 4800))
    acc = {}
    sig_counts = getattr(st, "sig_counts", {})
    for v in st.violations:
        key = (v["oracle"], v["sig"])
        if key not in acc:
            acc[key] = [sig_counts.get(key, 1), {"part": "histories", "params": v["params"], "choices": v["choices"], "labels": v["labels"]},
                        v["message"] + " | params=%r deviations=%r" % (v["params"], v["labels"])]
    djobs = direct_jobs(tier)
    d_emitted = 0
    for emitted, viols in core.pmap("checks.c03", "direct_work", djobs):
        d_emitted += emitted
        for key, (cnt, wit, msg) in viols.items():
            if key not in acc:
                acc[key] = [0, wit, msg]
            acc[key][0] += cnt
    long_rows = []
    if tier == "thorough":
        res = core.pmap("checks.c03", "long_wrap_work", [140000])
        for enc, wraps, viols, ticks in res:
            long_rows.append({"ticks": ticks, "encrypted_datagrams": enc, "wraps": wraps})
            for o, s, m in viols:
                acc.setdefault((o, s), [0, {"part": "long-wrap"}, m])[0] += 1
            if wraps < 2:
                acc[("vacuity", "the long history did not wrap the 16-bit counter")] = [1, {"part": "long-wrap"}, "wraps=%d" % wraps]
    for (oracle, sig), (cnt, wit, msg) in sorted(acc.items()):
        rep.add_violation(core.Violation(oracle, sig, wit, "%s [%d cases]" % (msg[:400], cnt)))
    wrapped = sum(1 for s in st.outcomes)  # distinct outcomes
    rep.coverage = {
        "states": st.points, "transitions": st.steps, "traces_validated_against_impl": st.executions,
        "executions": st.executions, "by_deviations": st.by_cost, "configurations": len(plist), "capped": st.capped,
        "distinct_outcomes": len(st.outcomes), "long_wrap_histories": long_rows, "direct_drive_configurations": len(djobs), "direct_drive_datagrams": d_emitted,
        "evaluations": st.executions, "distinct_nontrivial": len(st.outcomes),
        "rule": "histories = all programs of <=%d steps over %r x start states {early sends during the handshake, fresh, both counters preset to 65530, reduced ring 63} x <=1 deviation (drop/dup/delay8 of any datagram); "
                "every emitted datagram is checked by the monitor (reference AES-GCM decrypt with the 20-byte header as AAD, nonce table per session key, plaintext marker); outcomes = (encrypted seen, wrapped, #clear datagrams); plus direct drive of a keyed ConnectionBase (send + _build_packet) under clock-step patterns incl. a clock that does not move between calls" % (
                    2 if tier == "quick" else 3, STEPS),
        "exhaustive": not st.capped, "samples": st.samples[:4],
    }
    rep.assumptions = ["non-decreasing clock; frames of 1/64, 1/60 and 1/50 s, plus a 1 kHz busy loop (step 'fastloop') in which only the protocol's send-rate cap limits the datagram rate",
                       "reduced ring (63) is a configuration of the same code and is used for this monitor only (argument in DESIGN.md / module docstring)"]
    return rep


def replay(witness):
    if witness.get("part") == "histories":
        ch = explore.replay_choices(scenario, _tup(witness["params"]), witness["choices"])
        return [core.Violation(o, s, witness, m) for o, s, m in ch.found]
    if witness.get("part") == "direct":
        a = witness["arg"]
        emitted, viols = direct_work((a[0], tuple(a[1]), a[2], a[3]))
        return [core.Violation(k[0], k[1], witness, v[2]) for k, v in viols.items()]
    return []


def _tup(x):
    if isinstance(x, list):
        return tuple(_tup(i) for i in x)
    return x
