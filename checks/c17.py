"""C17 - path_join_safe never returns a path outside the root.

Engine C: bounded-exhaustive enumeration of (root, name) over an adversarial
segment alphabet, plus every capture the real Router produces for ``:path*``
routes over the same URL alphabet.  Oracle: containment computed with
os.path on the *result* only (independent of how the function got there).
"""
import os
import itertools

from mc import core

PROPERTY = "C17"
LEVEL = "exploration"

ROOTS = ["/srv/www", "/srv/www/", "/", "rel/root", "/srv/../srv/www", "C:\\www", "/srv/www/sub dir"]
PREFIXES = ["", "/", "//", "\\", "\\\\", "C:/", "C:\\", "~/"]
SEGS_FULL = ["..", ".", "", "a", "b c", "...", "..a", "a..", "~", "C:", "\x00", "\uff0e\uff0e", "\u2215"]
SEGS_SMALL = ["..", ".", "", "a", "~"]


def names(tier):
    """every name of the grammar, simplest first"""
    if tier == "quick":
        plan = [(SEGS_FULL, 3), (SEGS_SMALL, 5)]
    else:
        plan = [(SEGS_FULL, 5), (SEGS_SMALL, 7)]
    seen_plan = set()
    for alphabet, maxlen in plan:
        for n in range(0, maxlen + 1):
            for segs in itertools.product(alphabet, repeat=n):
                if (segs in seen_plan):
                    continue
                if alphabet is SEGS_SMALL:
                    # already produced by the full alphabet pass
                    if n <= plan[0][1]:
                        continue
                for sep in ("/", "\\"):
                    if n < 2 and sep == "\\":
                        continue
                    body = sep.join(segs)
                    for p in PREFIXES:
                        yield p + body
                if 2 <= n <= 3:
                    # mixed separators
                    for seps in itertools.product("/\\", repeat=n - 1):
                        if len(set(seps)) < 2:
                            continue
                        body = segs[0]
                        for s, sg in zip(seps, segs[1:]):
                            body += s + sg
                        yield body
                        yield "/" + body


# --- names in the form an HTTP client sends them: percent escapes -------------------------------------
# The router does not decode the URL path, so a :name* capture hands over '%2e%2e' as it stands; the
# property covers every name a client can supply, whatever decoding the function applies on the way.
# The family is generated, not listed: every character of the dangerous plain segments and separators
# spelled literally or as an escape (lower/upper hex digits), escapes of escapes ('%252e'), overlong
# and non-standard encodings of '.' and '/', escaped unusual characters, and malformed escapes.

def _spellings(text):
    """every way to write ``text`` with each character literal or percent-escaped (both hex cases)"""
    per_char = []
    for ch in text:
        low = "".join("%%%02x" % b for b in ch.encode("utf-8"))
        alts = [ch, low]
        if low.upper() != low:
            alts.append(low.upper())
        per_char.append(alts)
    return ["".join(c) for c in itertools.product(*per_char)]


def _escaped_only(text):
    return [s for s in _spellings(text) if s != text]


ENC_DOTS = _escaped_only("..") + _escaped_only(".") + \
    ["%252e%252e", "%252e", ".%252e", "%c0%ae%c0%ae", "%c0%ae", "%u002e%u002e", "%uff0e%uff0e", "%ef%bc%8e%ef%bc%8e",
     "%2e%2e%00", "%2e%2e%20", "%2e%2e;x", "%2e%2e%2e", "%2e%2e."]
ENC_OTHER = ["my%20file", "%00", "a%00", "%7e", "%7E", "%43%3a", "C%3a", "%", "%2", "%zz", "%%32%65", "a+b", "%61", "%e2%88%95", "%0a", "%09"]
ENC_SEGS = ENC_DOTS + ENC_OTHER
PLAIN_SEGS = ["..", ".", "", "a"]
ENC_SEPS = ["%2f", "%2F", "%5c", "%5C", "%252f", "%c0%af", "%u2215"]
ENC_PREFIXES = ["%2f", "%2F", "%2f%2f", "/%2f", "%5c", "%5c%5c", "C:%2f", "C%3a/", "C%3a%5c", "%7e/", "%7e%2f"]
ENC_DOTS_SMALL = ["%2e%2e", ".%2e", "%2E%2E", "%2e", "%252e%252e"]
ENC_SEGS_SMALL = ENC_DOTS_SMALL + ["..", "", "a", "%00", "my%20file"]
ENC_SEPS_SMALL = ["/", "\\", "%2f", "%5c"]


def encoded_names(tier):
    """names with percent escapes: <=N segments of which at least one (or a separator, or the prefix) is escaped"""
    n_full, n_small = (2, 3) if tier == "quick" else (3, 4)

    def emit(name):
        return "%" in name

    all_segs = ENC_SEGS + PLAIN_SEGS
    all_seps = ["/", "\\"] + ENC_SEPS
    all_pre = PREFIXES + ENC_PREFIXES
    few_seps = ["/", "%2f", "%5c"]
    few_pre = ["", "/", "%2f"]
    for n in range(1, n_full + 1):
        for segs in itertools.product(all_segs, repeat=n):
            # <=2 segments: every separator behind a few prefixes and every prefix with a few separators;
            # longer: a few of both
            if n <= 2:
                combos = [(sp, few_pre) for sp in all_seps if sp not in few_seps] + [(sp, all_pre) for sp in few_seps]
            else:
                combos = [(sp, few_pre) for sp in few_seps]
            for sep, pres in (combos if n > 1 else [("/", all_pre)]):
                body = sep.join(segs)
                for p in pres:
                    if emit(p + body):
                        yield p + body
                # the same with a trailing separator (a directory request)
                for s in ("/", "%2f"):
                    if emit(body + s):
                        yield body + s
    for n in range(n_full + 1, n_small + 1):
        for segs in itertools.product(ENC_SEGS_SMALL, repeat=n):
            for seps in itertools.product(ENC_SEPS_SMALL, repeat=n - 1):
                body = segs[0]
                for s, sg in zip(seps, segs[1:]):
                    body += s + sg
                for p in few_pre:
                    if emit(p + body):
                        yield p + body


def root_relative_encoded(root):
    """the root-derived absolute names (root, inside, parent, siblings) with their separators and dots escaped"""
    out = []
    for name in root_relative_names(root):
        for a, b in (("/", "%2f"), ("/", "%2F"), ("\\", "%5c"), (".", "%2e")):
            if a in name:
                out.append(name.replace(a, b))
                out.append(name[0] + name[1:].replace(a, b))
        out.append("".join("%%%02x" % b for b in name.encode("utf-8")))
    return [n for n in out if "%" in n]


def root_relative_names(root):
    """absolute names built from the root's own absolute path: the root itself, paths inside it,
    and SIBLINGS whose name merely starts with the root's name (string prefix, not path prefix)"""
    R = os.path.abspath(root.replace("\\", "/"))
    out = []
    for suffix in ("", "-private", "2", ".bak", "_old", " ", "x", "/", "//"):
        for tail in ("", "/x", "/x/y.txt", "/../x"):
            for pre in ("", "/", "\\"):
                name = pre + R + suffix + tail
                out.append(name)
                out.append(name.replace("/", "\\"))
    if R != "/":
        parent = os.path.dirname(R)
        out += [parent, parent + "/", parent + "/other", R[:-1], R[:-1] + "/x", R.upper(), R + "\x00"]
    return out


def verdict(root, name, fn):
    """returns None if fine, else (oracle, sig, message)"""
    try:
        r = fn(root, name)
    except ValueError:
        return None, "ValueError"
    except Exception as e:  # any other exception type is outside the contract
        return ("exception-type", "raises %s" % type(e).__name__,
                "path_join_safe(%r, %r) raised %r" % (root, name, e)), "exc"
    R = os.path.abspath(root.replace("\\", "/"))
    ok = isinstance(r, str) and os.path.isabs(r) and r == os.path.normpath(r)
    if ok:
        if R == "/":
            inside = True
        else:
            inside = (r == R) or r.startswith(R + "/")
        if inside:
            return None, ("root" if r == R else "below")
        norm = name.replace("\\", "/")
        if "%" in name:
            # (names with '%' entered the alphabet later; one class for all of them)
            sig = "name with percent escapes escapes root"
        elif norm.startswith("/"):
            sig = "absolute name escapes root"
        else:
            sig = "relative name escapes root: first segment %r" % norm.split("/")[0]
        return ("containment", sig, "path_join_safe(%r, %r) -> %r which is outside %r" % (root, name, r, R)), "escape"
    return ("normal-form", "result not normalized/absolute",
            "path_join_safe(%r, %r) -> %r" % (root, name, r)), "notnorm"


def work_init(tier):
    global _TIER, _FN
    core.import_repo()
    from mpgameserver.http_server import path_join_safe
    _TIER = tier
    _FN = path_join_safe


REL_ROOTS = ["rel/root", "static", "./static/", "", ".", "../shared", "a/../static"]


def chdir_work(arg):
    """process history: a relative root means 'relative to the working directory NOW'.  The same (root, name) calls are
    made in one working directory, again after the process changed its working directory, and again after it went back;
    every result is judged against abspath(root) at the time of the call."""
    import shutil
    import tempfile
    import itertools as _it
    order = arg[1]
    counts = core.Counter()
    viols = {}
    n = 0
    old = os.getcwd()
    base = tempfile.mkdtemp(prefix="c17cwd")
    try:
        dirs = [os.path.join(base, "deploy_a"), os.path.join(base, "deploy_b", "nested"), os.path.join(base, "deploy_a")]
        for d in dirs:
            os.makedirs(d, exist_ok=True)
        small = list(_it.islice(names("quick"), 0, 4000, 13)) + ["", "index.html", "a/b", "../x", "/etc/passwd"]
        for step, d in enumerate(dirs if order == 0 else dirs[::-1][1:] + dirs[:1]):
            os.chdir(d)
            for root in REL_ROOTS + [ROOTS[0]]:
                for name in small + list(_it.islice(root_relative_names(root), 0, 40)):
                    n += 1
                    bad, cls = verdict(root, name, _FN)
                    counts.inc("cwd-step%d:%s" % (step, cls))
                    if bad is not None:
                        oracle, sig, msg = bad
                        key = (oracle, sig + (" (relative root, after the process changed its working directory)" if step else " (relative root)"))
                        if key not in viols:
                            viols[key] = [0, {"family": "chdir", "order": order}, msg + " [working directory %s, step %d]" % (d[len(base):], step)]
                        viols[key][0] += 1
    finally:
        os.chdir(old)
        shutil.rmtree(base, ignore_errors=True)
    return n, dict(counts), viols, 0


def work(arg):
    """one worker = one (root, residue class of names)"""
    if arg[0] == "chdir":
        return chdir_work(arg)
    root, k, nparts = arg
    counts = core.Counter()
    viols = {}
    n = 0
    distinct_results = set()
    import itertools as _it
    escaped = False
    for i, name in enumerate(_it.chain(root_relative_names(root), names(_TIER), [None],
                                       root_relative_encoded(root), encoded_names(_TIER))):
        if name is None:
            escaped = True   # everything after the marker carries percent escapes
            continue
        if i % nparts != k:
            continue
        n += 1
        bad, cls = verdict(root, name, _FN)
        counts.inc("escaped:" + cls if escaped else cls)
        if bad is not None:
            oracle, sig, msg = bad
            key = (oracle, sig)
            if key not in viols:
                viols[key] = [0, {"root": root, "name": name}, msg]
            viols[key][0] += 1
        elif cls != "ValueError":
            distinct_results.add(hash((root, _FN(root, name))))
    return n, dict(counts), viols, len(distinct_results)


def router_captures(tier):
    """names that reach a static-file handler through the real router"""
    from mpgameserver.http_server import Router, Route
    router = Router()
    router.registerRoutes([Route("r1", "GET", "/static/:path*", None), Route("r2", "GET", "/:path*", None)])
    maxlen = 3 if tier == "quick" else 4
    out = []
    n_paths = 0
    for n in range(0, maxlen + 1):
        for segs in itertools.product(SEGS_FULL + ["static", "etc", "passwd"], repeat=n):
            for pre in ("/", "//", "/static/", "/static//"):
                for post in ("", "/"):
                    path = pre + "/".join(segs) + post
                    n_paths += 1
                    res = router.getRoute("GET", path)
                    if res is None:
                        continue
                    cap = res[1].get("path")
                    if cap is None:
                        cap = ""
                    out.append((path, cap))
    return n_paths, out


def router_captures_encoded(tier):
    """the router part with percent escapes in the URL: the router matches the raw path, the capture is the raw text"""
    from mpgameserver.http_server import Router, Route
    router = Router()
    router.registerRoutes([Route("r1", "GET", "/static/:path*", None), Route("r2", "GET", "/:path*", None)])
    segs_all = ENC_SEGS + ENC_SEPS + ["..%2f..", "..%5c..", "%2e%2e%2f%2e%2e", "..", "", "a", "static", "etc", "passwd"]
    segs_few = ENC_SEGS_SMALL + ["%2f", "static"]
    plan = [(segs_all, 1), (segs_all, 2), (segs_few, 3)] + ([] if tier == "quick" else [(segs_few, 4)])
    out = []
    n_paths = 0
    for alphabet, n in plan:
        for segs in itertools.product(alphabet, repeat=n):
            body = "/".join(segs)
            if "%" not in body:
                continue
            for pre in ("/", "//", "/static/", "/static//", "/static%2f", "/%2f", "/static/%2f"):
                for post in ("", "/"):
                    path = pre + body + post
                    n_paths += 1
                    res = router.getRoute("GET", path)
                    if res is None:
                        continue
                    out.append((path, res[1].get("path") or ""))
    return n_paths, out


def _samples(tier, caps):
    """a few of the cases this run evaluated, re-evaluated here with their outcome"""
    import itertools as _it
    out = []
    for root, idx in ((ROOTS[0], 7), (ROOTS[3], 4001), (ROOTS[5], 90001)):
        name = next(_it.islice(_it.chain(root_relative_names(root), names(tier)), idx, None))
        bad, cls = verdict(root, name, _FN)
        out.append({"root": root, "name": name, "outcome": cls if bad is None else bad[1]})
    for p, c in caps:
        if p.startswith("//") and c:
            bad, cls = verdict(ROOTS[0], c, _FN)
            out.append({"url": p, "router_capture": c, "root": ROOTS[0], "outcome": cls if bad is None else bad[1]})
            break
    return out


def run(tier, seed):
    rep = core.Report()
    nparts = 4
    jobs = [(root, k, nparts) for root in ROOTS for k in range(nparts)] + [("chdir", 0, 0), ("chdir", 1, 0)]
    if seed:
        jobs = jobs[seed % len(jobs):] + jobs[:seed % len(jobs)]
    results = core.pmap("checks.c17", "work", jobs, initargs=(tier,))
    total = 0
    classes = core.Counter()
    distinct = 0
    viol_acc = {}
    for n, counts, viols, nd in results:
        total += n
        distinct += nd
        for k, v in counts.items():
            classes.inc(k, v)
        for key, (cnt, wit, msg) in viols.items():
            if key not in viol_acc:
                viol_acc[key] = [0, wit, msg]
            viol_acc[key][0] += cnt

    # router captures
    work_init(tier)
    n_paths, caps = router_captures(tier)
    cap_names = sorted(set(c for _, c in caps))
    n_paths_enc, caps_enc = router_captures_encoded(tier)
    from mpgameserver.http_server import Router, Route
    router = Router()
    router.registerRoutes([Route("r1", "GET", "/static/:path*", None), Route("r2", "GET", "/:path*", None)])
    for root in ROOTS:
        extra = []
        for name in root_relative_names(root):
            for url in ("/static/" + name, "/static" + name, "/" + name, name):
                if not url.startswith("/"):
                    continue
                n_paths += 1
                try:
                    res = router.getRoute("GET", url)
                except Exception:
                    res = None
                if res is not None:
                    extra.append((url, res[1].get("path") or ""))
        for name in root_relative_encoded(root):
            for url in ("/static/" + name, "/static" + name, "/" + name, name):
                if not url.startswith("/"):
                    continue
                n_paths_enc += 1
                try:
                    res = router.getRoute("GET", url)
                except Exception:
                    res = None
                if res is not None:
                    extra.append((url, res[1].get("path") or ""))
        for path, cap in caps + caps_enc + extra:
            total += 1
            bad, cls = verdict(root, cap, _FN)
            classes.inc(("router-escaped:" if "%" in path else "router:") + cls)
            if bad is not None:
                oracle, sig, msg = bad
                key = (oracle, sig)
                if key not in viol_acc:
                    viol_acc[key] = [0, {"root": root, "name": cap, "url": path}, msg + " (router capture of %r)" % path]
                viol_acc[key][0] += 1

    for (oracle, sig), (cnt, wit, msg) in sorted(viol_acc.items()):
        rep.add_violation(core.Violation(oracle, sig, wit, "%s [%d inputs of this class]" % (msg, cnt)))

    rep.coverage = {
        "evaluations": total,
        "distinct_nontrivial": distinct,
        "rule": "absolute names derived from each root's own path (root, inside, parent, siblings sharing the root's name as string prefix) + every name = prefix in %r + <=N segments over %r joined by / or \\ (N=%s full alphabet, deeper over %r), "
                "x roots %r; plus every :path* capture of the real Router over URL paths of the same alphabet. "
                "non-trivial = distinct (root, returned path) pairs among calls that returned (did not raise)" % (
                    PREFIXES, SEGS_FULL, 3 if tier == "quick" else 5, SEGS_SMALL, ROOTS),
        "outcome_classes": dict(classes),
        "router_paths_tried": n_paths,
        "router_captures": len(caps),
        "router_distinct_captures": len(cap_names),
        "escaped_rule": "names with percent escapes (the router hands the raw URL path over): every literal/escaped spelling of '..' and '.' in both hex cases, double escapes, overlong and %%u forms, "
                        "escaped NUL/space/tilde/drive prefix, malformed escapes (%d segments), joined by / \\ or escaped separators %r, behind plain and escaped prefixes %r, <=%d segments "
                        "(<=%d over %r); each root's own absolute names with separators or dots escaped; the same through :path* captures (<=2 segments, <=%d over the short list)" % (
                            len(ENC_SEGS), ENC_SEPS, ENC_PREFIXES, 2 if tier == "quick" else 3, 3 if tier == "quick" else 4, ENC_SEGS_SMALL, 3 if tier == "quick" else 4),
        "escaped_names_evaluated": sum(v for k, v in classes.items() if k.startswith("escaped:")),
        "router_escaped_paths_tried": n_paths_enc,
        "router_escaped_captures": len(caps_enc),
        "router_escaped_distinct_captures": len(set(c for _, c in caps_enc)),
        "exhaustive": True,
        "samples": core.safe_samples(lambda: _samples(tier, caps)),
    }
    rep.assumptions = ["POSIX os.path semantics (the sandbox platform); the oracle only inspects the returned string",
                       "router captures limited to URL paths of <=%d segments over the listed alphabet" % (3 if tier == "quick" else 4)]
    return rep


def replay(witness):
    if witness.get("family") == "chdir":
        work_init("quick")
        n, counts, viols, _ = chdir_work(("chdir", witness.get("order", 0), 0))
        return [core.Violation(o, sg, witness, v[2]) for (o, sg), v in viols.items()]
    return _replay_name(witness)


def _replay_name(witness):
    work_init("quick")
    bad, cls = verdict(witness["root"], witness["name"], _FN)
    if bad is None:
        return []
    return [core.Violation(bad[0], bad[1], witness, bad[2])]
