"""C17 - path_join_safe never returns a path outside the root.

Engine C: bounded-exhaustive enumeration of (root, name) over an adversarial
segment alphabet, plus every capture the real Router produces for ``:path*``
routes over the same URL alphabet.  Oracle: containment computed with
os.path on the *result* only (independent of how the function got there).
"""
import os
import itertools

from mc import core

PROPERTY = "C17"
LEVEL = "exploration"

ROOTS = ["/srv/www", "/srv/www/", "/", "rel/root", "/srv/../srv/www", "C:\\www", "/srv/www/sub dir"]
PREFIXES = ["", "/", "//", "\\", "\\\\", "C:/", "C:\\", "~/"]
SEGS_FULL = ["..", ".", "", "a", "b c", "...", "..a", "a..", "~", "C:", "\x00", "\uff0e\uff0e", "\u2215"]
SEGS_SMALL = ["..", ".", "", "a", "~"]


def names(tier):
    """every name of the grammar, simplest first"""
    if tier == "quick":
        plan = [(SEGS_FULL, 3), (SEGS_SMALL, 5)]
    else:
        plan = [(SEGS_FULL, 5), (SEGS_SMALL, 7)]
    seen_plan = set()
    for alphabet, maxlen in plan:
        for n in range(0, maxlen + 1):
            for segs in itertools.product(alphabet, repeat=n):
                if (segs in seen_plan):
                    continue
                if alphabet is SEGS_SMALL:
                    # already produced by the full alphabet pass
                    if n <= plan[0][1]:
                        continue
                for sep in ("/", "\\"):
                    if n < 2 and sep == "\\":
                        continue
                    body = sep.join(segs)
                    for p in PREFIXES:
                        yield p + body
                if 2 <= n <= 3:
                    # mixed separators
                    for seps in itertools.product("/\\", repeat=n - 1):
                        if len(set(seps)) < 2:
                            continue
                        body = segs[0]
                        for s, sg in zip(seps, segs[1:]):
                            body += s + sg
                        yield body
                        yield "/" + body


def root_relative_names(root):
    """absolute names built from the root's own absolute path: the root itself, paths inside it,
    and SIBLINGS whose name merely starts with the root's name (string prefix, not path prefix)"""
    R = os.path.abspath(root.replace("\\", "/"))
    out = []
    for suffix in ("", "-private", "2", ".bak", "_old", " ", "x", "/", "//"):
        for tail in ("", "/x", "/x/y.txt", "/../x"):
            for pre in ("", "/", "\\"):
                name = pre + R + suffix + tail
                out.append(name)
                out.append(name.replace("/", "\\"))
    if R != "/":
        parent = os.path.dirname(R)
        out += [parent, parent + "/", parent + "/other", R[:-1], R[:-1] + "/x", R.upper(), R + "\x00"]
    return out


def verdict(root, name, fn):
    """returns None if fine, else (oracle, sig, message)"""
    try:
        r = fn(root, name)
    except ValueError:
        return None, "ValueError"
    except Exception as e:  # any other exception type is outside the contract
        return ("exception-type", "raises %s" % type(e).__name__,
                "path_join_safe(%r, %r) raised %r" % (root, name, e)), "exc"
    R = os.path.abspath(root.replace("\\", "/"))
    ok = isinstance(r, str) and os.path.isabs(r) and r == os.path.normpath(r)
    if ok:
        if R == "/":
            inside = True
        else:
            inside = (r == R) or r.startswith(R + "/")
        if inside:
            return None, ("root" if r == R else "below")
        norm = name.replace("\\", "/")
        if norm.startswith("/"):
            sig = "absolute name escapes root"
        else:
            sig = "relative name escapes root: first segment %r" % norm.split("/")[0]
        return ("containment", sig, "path_join_safe(%r, %r) -> %r which is outside %r" % (root, name, r, R)), "escape"
    return ("normal-form", "result not normalized/absolute",
            "path_join_safe(%r, %r) -> %r" % (root, name, r)), "notnorm"


def work_init(tier):
    global _TIER, _FN
    core.import_repo()
    from mpgameserver.http_server import path_join_safe
    _TIER = tier
    _FN = path_join_safe


def work(arg):
    """one worker = one (root, residue class of names)"""
    root, k, nparts = arg
    counts = core.Counter()
    viols = {}
    n = 0
    distinct_results = set()
    import itertools as _it
    for i, name in enumerate(_it.chain(root_relative_names(root), names(_TIER))):
        if i % nparts != k:
            continue
        n += 1
        bad, cls = verdict(root, name, _FN)
        counts.inc(cls)
        if bad is not None:
            oracle, sig, msg = bad
            key = (oracle, sig)
            if key not in viols:
                viols[key] = [0, {"root": root, "name": name}, msg]
            viols[key][0] += 1
        elif cls != "ValueError":
            distinct_results.add(hash((root, _FN(root, name))))
    return n, dict(counts), viols, len(distinct_results)


def router_captures(tier):
    """names that reach a static-file handler through the real router"""
    from mpgameserver.http_server import Router, Route
    router = Router()
    router.registerRoutes([Route("r1", "GET", "/static/:path*", None), Route("r2", "GET", "/:path*", None)])
    maxlen = 3 if tier == "quick" else 4
    out = []
    n_paths = 0
    for n in range(0, maxlen + 1):
        for segs in itertools.product(SEGS_FULL + ["static", "etc", "passwd"], repeat=n):
            for pre in ("/", "//", "/static/", "/static//"):
                for post in ("", "/"):
                    path = pre + "/".join(segs) + post
                    n_paths += 1
                    res = router.getRoute("GET", path)
                    if res is None:
                        continue
                    cap = res[1].get("path")
                    if cap is None:
                        cap = ""
                    out.append((path, cap))
    return n_paths, out


def _samples(tier, caps):
    """a few of the cases this run evaluated, re-evaluated here with their outcome"""
    import itertools as _it
    out = []
    for root, idx in ((ROOTS[0], 7), (ROOTS[3], 4001), (ROOTS[5], 90001)):
        name = next(_it.islice(_it.chain(root_relative_names(root), names(tier)), idx, None))
        bad, cls = verdict(root, name, _FN)
        out.append({"root": root, "name": name, "outcome": cls if bad is None else bad[1]})
    for p, c in caps:
        if p.startswith("//") and c:
            bad, cls = verdict(ROOTS[0], c, _FN)
            out.append({"url": p, "router_capture": c, "root": ROOTS[0], "outcome": cls if bad is None else bad[1]})
            break
    return out


def run(tier, seed):
    rep = core.Report()
    nparts = 4
    jobs = [(root, k, nparts) for root in ROOTS for k in range(nparts)]
    if seed:
        jobs = jobs[seed % len(jobs):] + jobs[:seed % len(jobs)]
    results = core.pmap("checks.c17", "work", jobs, initargs=(tier,))
    total = 0
    classes = core.Counter()
    distinct = 0
    viol_acc = {}
    for n, counts, viols, nd in results:
        total += n
        distinct += nd
        for k, v in counts.items():
            classes.inc(k, v)
        for key, (cnt, wit, msg) in viols.items():
            if key not in viol_acc:
                viol_acc[key] = [0, wit, msg]
            viol_acc[key][0] += cnt

    # router captures
    work_init(tier)
    n_paths, caps = router_captures(tier)
    cap_names = sorted(set(c for _, c in caps))
    from mpgameserver.http_server import Router, Route
    router = Router()
    router.registerRoutes([Route("r1", "GET", "/static/:path*", None), Route("r2", "GET", "/:path*", None)])
    for root in ROOTS:
        extra = []
        for name in root_relative_names(root):
            for url in ("/static/" + name, "/static" + name, "/" + name, name):
                if not url.startswith("/"):
                    continue
                n_paths += 1
                try:
                    res = router.getRoute("GET", url)
                except Exception:
                    res = None
                if res is not None:
                    extra.append((url, res[1].get("path") or ""))
        for path, cap in caps + extra:
            total += 1
            bad, cls = verdict(root, cap, _FN)
            classes.inc("router:" + cls)
            if bad is not None:
                oracle, sig, msg = bad
                key = (oracle, sig)
                if key not in viol_acc:
                    viol_acc[key] = [0, {"root": root, "name": cap, "url": path}, msg + " (router capture of %r)" % path]
                viol_acc[key][0] += 1

    for (oracle, sig), (cnt, wit, msg) in sorted(viol_acc.items()):
        rep.add_violation(core.Violation(oracle, sig, wit, "%s [%d inputs of this class]" % (msg, cnt)))

    rep.coverage = {
        "evaluations": total,
        "distinct_nontrivial": distinct,
        "rule": "absolute names derived from each root's own path (root, inside, parent, siblings sharing the root's name as string prefix) + every name = prefix in %r + <=N segments over %r joined by / or \\ (N=%s full alphabet, deeper over %r), "
                "x roots %r; plus every :path* capture of the real Router over URL paths of the same alphabet. "
                "non-trivial = distinct (root, returned path) pairs among calls that returned (did not raise)" % (
                    PREFIXES, SEGS_FULL, 3 if tier == "quick" else 5, SEGS_SMALL, ROOTS),
        "outcome_classes": dict(classes),
        "router_paths_tried": n_paths,
        "router_captures": len(caps),
        "router_distinct_captures": len(cap_names),
        "exhaustive": True,
        "samples": core.safe_samples(lambda: _samples(tier, caps)),
    }
    rep.assumptions = ["POSIX os.path semantics (the sandbox platform); the oracle only inspects the returned string",
                       "router captures limited to URL paths of <=%d segments over the listed alphabet" % (3 if tier == "quick" else 4)]
    return rep


def replay(witness):
    work_init("quick")
    bad, cls = verdict(witness["root"], witness["name"], _FN)
    if bad is None:
        return []
    return [core.Violation(bad[0], bad[1], witness, bad[2])]
