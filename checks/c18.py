"""C18 - WebSocket frames per RFC 6455; TCP segmentation is harmless.

codec   engine C: opcode x mask flag x masking key x payload length; the
        library's writer (serializeHeader/serializeDataHeader and
        writeFrameFactory into a capture socket) against an independent RFC
        6455 encoder, and the library's reader on the library's own output
factory the same lengths through every public constructor (Text with 1-4-byte
        characters, Binary, Ping, Pong, Close) and handler.send()/close()
stream  engine B: sequences of 1-3 masked client frames; EVERY segmentation
        of the byte stream (2^(N-1) for N <= 18 bytes, <= 2/3 cuts otherwise)
        fed chunk by chunk to the real WebSocketTemporaryHandler.__call__
        (and once per sequence through HTTPFactory's Channel.dataReceived)
"""
import itertools
import struct

from mc import core

core.import_repo()
from mpgameserver.http_server import (WebSocketFrame, WebSocketOpCode, WebSocketTemporaryRingBuffer,
                                      WebSocketTemporaryHandler, readFrameFactory, writeFrameFactory, HTTPFactory)  # noqa

PROPERTY = "C18"
LEVEL = "model_checking"

OPCODES = [WebSocketOpCode.Text, WebSocketOpCode.Binary, WebSocketOpCode.Ping, WebSocketOpCode.Pong, WebSocketOpCode.Close]
KEYS = [b"\x00\x00\x00\x00", b"\x01\x02\x03\x04", b"\xff\xff\xff\xff", b"\x37\xfa\x21\x3d"]


def ref_encode(opcode, payload, mask, key, fin=1):
    """RFC 6455 section 5.2"""
    b0 = (fin << 7) | opcode
    n = len(payload)
    if n <= 125:
        hdr = bytes([b0, (mask << 7) | n])
    elif n <= 0xFFFF:
        hdr = bytes([b0, (mask << 7) | 126]) + struct.pack("!H", n)
    else:
        hdr = bytes([b0, (mask << 7) | 127]) + struct.pack("!Q", n)
    if mask:
        body = bytes(b ^ key[i % 4] for i, b in enumerate(payload))
        return hdr + key + body
    return hdr + payload


def ref_decode(data):
    b0, b1 = data[0], data[1]
    fin, opcode = b0 >> 7, b0 & 0x0F
    mask, n = b1 >> 7, b1 & 0x7F
    pos = 2
    if n == 126:
        n, = struct.unpack("!H", data[pos:pos + 2])
        pos += 2
    elif n == 127:
        n, = struct.unpack("!Q", data[pos:pos + 8])
        pos += 8
    key = b"\x00" * 4
    if mask:
        key = data[pos:pos + 4]
        pos += 4
    body = data[pos:pos + n]
    if mask:
        body = bytes(b ^ key[i % 4] for i, b in enumerate(body))
    return fin, opcode, mask, n, body, pos + n


def payload_of(n):
    return bytes((i * 31 + 7) & 0xFF for i in range(n))


class CaptureSocket(object):
    def __init__(self):
        self.out = []

    def sendall(self, data):
        self.out.append(bytes(data))


class FakeRequest(object):
    def __init__(self):
        self.written = []
        self.chunked = 1

    def write(self, data):
        self.written.append(bytes(data))


def lengths(tier):
    base = {0, 1, 2, 124, 125, 126, 127, 128, 65534, 65535, 65536, 65537, 70000, 255, 256, 1000}
    if tier == "thorough":
        base |= set(range(0, 2000)) | set(range(65000, 66200)) | set(range(0, 70001, 97))
    return sorted(base)


def build_frame(opcode, payload, mask, key):
    f = WebSocketFrame()
    f.flags.fin = 1
    f.flags.opcode = opcode
    f.flags.mask = mask
    f.masking_key = key
    f.payload = payload
    f.payload_length = len(payload)
    return f


def codec_work_init(tier):
    global _TIER
    _TIER = tier


def codec_work(lens):
    viols = {}
    total = 0
    ok = 0

    def flag(oracle, sig, wit, msg):
        viols.setdefault((oracle, sig), [0, wit, msg])[0] += 1

    for n in lens:
        pl = payload_of(n)
        for op in OPCODES:
            for mask in (0, 1):
                for key in (KEYS if mask and (n < 300 or _TIER == "thorough") else KEYS[1:2] if mask else KEYS[:1]):
                    total += 1
                    wit = {"part": "codec", "opcode": op.value, "mask": mask, "key": key.hex(), "length": n}
                    want = ref_encode(op.value, pl, mask, key)
                    lenclass = "len<=125" if n <= 125 else ("len 126..65534" if n < 65535 else ("len 65535" if n == 65535 else "len>65535"))
                    try:
                        f = build_frame(op, pl, mask, key)
                        got1 = f.serializeHeader() + f.serializeDataHeader()
                        sock = CaptureSocket()
                        writeFrameFactory(sock)(build_frame(op, pl, mask, key))
                        got2 = b"".join(sock.out)
                    except Exception as e:
                        flag("write-raises", "writing a frame raises %s" % type(e).__name__, wit, repr(e))
                        continue
                    hl = len(want) - n
                    if got1 != want[:hl] or got2[:hl] != want[:hl]:
                        flag("header-encoding", "frame header differs from RFC 6455 (%s, mask=%d)" % (lenclass, mask), wit,
                             "header %s, RFC %s" % (got2[:hl].hex(), want[:hl].hex()))
                        continue
                    if got2 != want:
                        flag("payload-encoding", "payload on the wire differs from RFC 6455 (mask=%d)" % mask, wit,
                             "first bytes %s, RFC %s" % (got2[hl:hl + 8].hex(), want[hl:hl + 8].hex()))
                        continue
                    # the library parses its own output back to the same frame
                    try:
                        buf = WebSocketTemporaryRingBuffer(FakeRequest())
                        buf._push(got2)
                        fr = readFrameFactory(buf)()
                    except Exception as e:
                        flag("parse-raises", "parsing the library's own frame raises %s (%s)" % (type(e).__name__, lenclass), wit, repr(e))
                        continue
                    if (fr.flags.opcode != op or fr.flags.fin != 1 or fr.flags.mask != mask or fr.payload_length != n or bytes(fr.payload) != pl or buf.buf != b""):
                        flag("parse-back", "frame does not parse back to itself (%s, mask=%d)" % (lenclass, mask), wit,
                             "opcode %s len %s payload-equal %s rest %d" % (fr.flags.opcode, fr.payload_length, bytes(fr.payload) == pl, len(buf.buf)))
                        continue
                    ok += 1
    return total, ok, viols


def texts_of(n):
    """strings whose UTF-8 encoding is exactly n bytes: 1-, 2-, 3- and 4-byte characters and a mix"""
    out = [("ascii", "".join(chr(0x61 + (i % 26)) for i in range(n)))]
    for name, chx in (("2-byte", "\u00e9"), ("3-byte", "\u20ac"), ("4-byte", "\U0001F600")):
        w = len(chx.encode("utf-8"))
        if n >= w:
            out.append((name, chx * (n // w) + "a" * (n % w)))
    if n >= 10:
        mix = "a\u00e9\u20ac\U0001F600"      # 10 bytes, 4 characters
        out.append(("mixed", mix * (n // 10) + "z" * (n % 10)))
    return out


def factory_frames(n):
    """(label, opcode, frame, expected payload bytes) for every public frame constructor, payload of n bytes"""
    pl = payload_of(n)
    out = [("Binary()", WebSocketOpCode.Binary, lambda: WebSocketFrame.Binary(pl), pl),
           ("Ping()", WebSocketOpCode.Ping, lambda: WebSocketFrame.Ping(pl), pl),
           ("Pong()", WebSocketOpCode.Pong, lambda: WebSocketFrame.Pong(pl), pl)]
    for name, txt in texts_of(n):
        out.append(("Text(%s)" % name, WebSocketOpCode.Text, (lambda t: lambda: WebSocketFrame.Text(t))(txt), txt.encode("utf-8")))
    if n >= 2:
        for status in (1000, 200, 0, 65535):
            out.append(("Close()", WebSocketOpCode.Close, (lambda st: lambda: WebSocketFrame.Close(st, pl[:n - 2]))(status), struct.pack("!H", status) + pl[:n - 2]))
    return out


def factory_work(lens):
    """frames built by the library's own constructors (and by handler.send / handler.close), written by the library's
    writer, against the RFC encoder, and parsed back by the library's reader"""
    viols = {}
    total = 0
    ok = 0

    def flag(oracle, sig, wit, msg):
        viols.setdefault((oracle, sig), [0, wit, msg])[0] += 1

    for n in lens:
        for label, op, make, expect in factory_frames(n):
            for mask in (0, 1):
                total += 1
                key = KEYS[3] if mask else KEYS[0]
                wit = {"part": "factory", "constructor": label, "mask": mask, "length": n}
                want = ref_encode(op.value, expect, mask, key)
                try:
                    f = make()
                    f.flags.mask = mask
                    f.masking_key = key
                    sock = CaptureSocket()
                    writeFrameFactory(sock)(f)
                    got = b"".join(sock.out)
                except Exception as e:
                    flag("write-raises", "writing a frame built by WebSocketFrame.%s raises %s" % (label, type(e).__name__), wit, repr(e))
                    continue
                if got != want:
                    hl = len(want) - len(expect)
                    flag("factory-encoding", "frame built by WebSocketFrame.%s is not the RFC 6455 encoding of its payload" % label, wit,
                         "header %s, RFC %s; %d bytes on the wire, RFC %d" % (got[:hl].hex(), want[:hl].hex(), len(got), len(want)))
                    continue
                try:
                    buf = WebSocketTemporaryRingBuffer(FakeRequest())
                    buf._push(got)
                    fr = readFrameFactory(buf)()
                except Exception as e:
                    flag("parse-raises", "parsing a frame built by WebSocketFrame.%s raises %s" % (label, type(e).__name__), wit, repr(e))
                    continue
                if fr.flags.opcode != op or fr.payload_length != len(expect) or bytes(fr.payload) != expect or buf.buf != b"":
                    flag("parse-back", "frame built by WebSocketFrame.%s does not parse back to itself" % label, wit,
                         "len %s payload-equal %s rest %d" % (fr.payload_length, bytes(fr.payload) == expect, len(buf.buf)))
                    continue
                ok += 1
        # the server's own send path: handler.send(str) then handler.close()
        for name, txt in texts_of(n):
            total += 1
            wit = {"part": "factory", "constructor": "handler.send(%s)" % name, "mask": 0, "length": n}
            req = FakeRequest()
            handler = WebSocketTemporaryHandler(("1.2.3.4", 5), {}, {}, WebSocketTemporaryRingBuffer(req), Endpoint())
            try:
                handler.send(txt)
                handler.send("next")
                handler.close()
                handler.close()
            except Exception as e:
                flag("write-raises", "handler.send/close raises %s" % type(e).__name__, wit, repr(e))
                continue
            got = b"".join(req.written)
            want = (ref_encode(1, txt.encode("utf-8"), 0, KEYS[0]) + ref_encode(1, b"next", 0, KEYS[0]) +
                    ref_encode(8, struct.pack("!H", 200) + b"OK", 0, KEYS[0]))
            if got != want:
                flag("factory-encoding", "bytes written by handler.send(%s text)/close are not the RFC 6455 frames" % name, wit,
                     "%d bytes written, RFC %d; first difference at %d" % (len(got), len(want), next((i for i in range(min(len(got), len(want))) if got[i] != want[i]), min(len(got), len(want)))))
                continue
            ok += 1
    return total, ok, viols


factory_work_init = codec_work_init


# ---------------------------------------------------------------------------
# stream

class Endpoint(object):
    """stands for the registered websocket route"""

    def __init__(self):
        self.log = []
        self.websocket = True

    def callback(self, handler, opcode, payload):
        self.log.append((opcode.value, payload))


def frame_sequences(tier):
    small = [(WebSocketOpCode.Text, 0), (WebSocketOpCode.Text, 1), (WebSocketOpCode.Binary, 1), (WebSocketOpCode.Binary, 5),
             (WebSocketOpCode.Ping, 0), (WebSocketOpCode.Ping, 5), (WebSocketOpCode.Close, 0), (WebSocketOpCode.Close, 2)]
    seqs = []
    for n in (1, 2, 3):
        for combo in itertools.product(small, repeat=n):
            # Close only as the last frame
            if any(op == WebSocketOpCode.Close for op, _ in combo[:-1]):
                continue
            seqs.append(list(combo))
    seqs.append([(WebSocketOpCode.Text, -3)])
    seqs.append([(WebSocketOpCode.Text, -4), (WebSocketOpCode.Text, -2)])
    seqs.append([(WebSocketOpCode.Binary, 1), (WebSocketOpCode.Text, -13), (WebSocketOpCode.Text, 1)])
    seqs.append([(WebSocketOpCode.Text, -126), (WebSocketOpCode.Ping, 0)])
    seqs.append([(WebSocketOpCode.Binary, 126)])
    seqs.append([(WebSocketOpCode.Text, 126), (WebSocketOpCode.Binary, 1)])
    seqs.append([(WebSocketOpCode.Binary, 5), (WebSocketOpCode.Text, 200), (WebSocketOpCode.Close, 2)])
    seqs.append([(WebSocketOpCode.Binary, 65536)])
    return seqs


def text_payload(n):
    if n < 0:       # -n bytes of multi-byte characters
        return texts_of(-n)[-1][1].encode("utf-8")
    return bytes(0x61 + (i % 26) for i in range(n))


def encode_seq(seq):
    data = b""
    want = []
    for i, (op, n) in enumerate(seq):
        pl = text_payload(n) if op == WebSocketOpCode.Text else payload_of(n)
        data += ref_encode(op.value, pl, 1, KEYS[(i + 1) % 4])
        want.append((op.value, pl.decode("utf-8") if op == WebSocketOpCode.Text else pl))
    return data, want


def segmentations(N, tier):
    """yield tuples of cut positions (sorted, each in 1..N-1)"""
    if N <= 18:
        for bits in range(1 << (N - 1)):
            yield tuple(i + 1 for i in range(N - 1) if bits >> i & 1)
        return
    maxcuts = 2 if tier == "quick" else 3
    if N > 5000:
        # one big frame: cuts at every header offset and a few inside the payload
        pts = list(range(1, 16)) + [N // 2, N - 2, N - 1]
        for k in range(0, maxcuts + 1):
            for cuts in itertools.combinations(pts, k):
                yield cuts
        return
    pts = list(range(1, N))
    if N > 60:
        pts = list(range(1, 24)) + list(range(24, N - 12, 7)) + list(range(N - 12, N))
    for k in range(0, maxcuts + 1):
        for cuts in itertools.combinations(pts, k):
            yield cuts


def feed(data, cuts, via_channel=False):
    ep = Endpoint()
    req = FakeRequest()
    buf = WebSocketTemporaryRingBuffer(req)
    handler = WebSocketTemporaryHandler(("1.2.3.4", 5), {}, {}, buf, ep)
    sink = handler
    if via_channel:
        factory = HTTPFactory(router=None)
        chan = factory.buildProtocol(None)
        chan.websocket_callback = handler
        sink = chan.dataReceived
    pos = 0
    err = None
    for c in list(cuts) + [len(data)]:
        chunk = data[pos:c]
        pos = c
        try:
            sink(chunk)
        except Exception as e:
            err = e
            break
    return ep.log, err, req.written


class RaisingEndpoint(Endpoint):
    """fails on its first frame"""

    def callback(self, handler, opcode, payload):
        Endpoint.callback(self, handler, opcode, payload)
        if len(self.log) == 1:
            raise RuntimeError("endpoint fails on its first frame (injected)")


class ReentrantEndpoint(Endpoint):
    """a loopback transport: while the first frame is being handled the next chunk of the stream arrives"""

    def __init__(self):
        Endpoint.__init__(self)
        self.pending = []
        self.errors = []

    def callback(self, handler, opcode, payload):
        Endpoint.callback(self, handler, opcode, payload)
        if self.pending:
            chunk = self.pending.pop(0)
            try:
                handler(chunk)
            except Exception as e:
                self.errors.append(e)


def feed_misbehaving(data, cuts, mode):
    ep = RaisingEndpoint() if mode == "raise" else ReentrantEndpoint()
    req = FakeRequest()
    buf = WebSocketTemporaryRingBuffer(req)
    handler = WebSocketTemporaryHandler(("1.2.3.4", 5), {}, {}, buf, ep)
    chunks = []
    pos = 0
    for c in list(cuts) + [len(data)]:
        chunks.append(data[pos:c])
        pos = c
    raised = 0
    if mode == "reentrant":
        ep.pending = chunks[1:]
        chunks = chunks[:1]
    for chunk in chunks + [b""]:
        try:
            handler(chunk)
        except RuntimeError:
            raised += 1
        except Exception as e:
            return ep.log, e
    if mode == "reentrant":
        while ep.pending:
            handler(ep.pending.pop(0))
        handler(b"")
        if ep.errors:
            return ep.log, ep.errors[0]
    return ep.log, None


def stream_work_init(tier):
    global _TIER, _SEQS
    _TIER = tier
    _SEQS = frame_sequences(tier)


def stream_work(arg):
    k, n = arg
    viols = {}
    total = 0
    states = set()
    for si, seq in enumerate(_SEQS):
        if si % n != k:
            continue
        data, want = encode_seq(seq)
        N = len(data)
        first = True
        for cuts in segmentations(N, _TIER):
            total += 1
            log, err, written = feed(data, cuts, via_channel=first)
            first = False
            states.add((si, len(cuts), len(log)))
            shape = "one frame per read" if not cuts and len(seq) == 1 else ("several frames in one read" if not cuts else
                                                                               ("a frame split across reads" if len(seq) == 1 else "frames split/coalesced across reads"))
            wit = {"part": "stream", "frames": [(op.value, ln) for op, ln in seq], "cuts": list(cuts)}
            if err is not None:
                viols.setdefault(("stream-raises", "the handler raises %s when %s" % (type(err).__name__, shape)), [0, wit, repr(err)])[0] += 1
                continue
            if len(seq) >= 2 and len(cuts) <= 1 and not any(op == WebSocketOpCode.Close for op, _ in seq):
                for mode in ("raise", "reentrant"):
                    total += 1
                    log2, err2 = feed_misbehaving(data, cuts, mode)
                    norm2 = [(o, bytes(p) if not isinstance(p, str) else p) for o, p in log2]
                    if err2 is not None:
                        viols.setdefault(("stream-raises", "the handler raises %s when %s" % (type(err2).__name__, "the endpoint failed on an earlier frame" if mode == "raise" else "it is re-entered from the endpoint callback")),
                                         [0, dict(wit, mode=mode), repr(err2)])[0] += 1
                    elif norm2 != want:
                        viols.setdefault(("stream-delivery", "client frames %s when %s" % (
                            "lost" if len(norm2) < len(want) else ("duplicated/extra" if len(norm2) > len(want) else "out of order"),
                            "the endpoint fails on the first frame of a read that holds several" if mode == "raise" else "the next chunk arrives while the first frame is being handled (re-entrant call)")),
                            [0, dict(wit, mode=mode), "delivered %r, sent %r" % ([(o, p[:6]) for o, p in norm2][:4], [(o, p[:6]) for o, p in want][:4])])[0] += 1
            norm = [(o, bytes(p) if not isinstance(p, str) else p) for o, p in log]
            if norm != want:
                what = "lost" if len(norm) < len(want) else ("duplicated/extra" if len(norm) > len(want) else "garbled")
                viols.setdefault(("stream-delivery", "client frames %s when %s" % (what, shape)), [0, wit, "delivered %r, sent %r" % ([(o, p[:6]) for o, p in norm][:4], [(o, p[:6]) for o, p in want][:4])])[0] += 1
    return total, len(states), viols



# ---------------------------------------------------------------------------
# stream, the application acts on the socket from inside its callback

APP_ACTIONS = ("close", "send", "send+close")


class AppEndpoint(Endpoint):
    """an application that uses the socket from INSIDE its callback: while it handles its k-th client frame it closes the
    websocket, sends a frame, or both (k = 0: it answers every frame - an echo server).  The client does not know about that
    yet: the frames it had pipelined, and its Close reply (RFC 6455 5.5.1), follow in the same read or in later reads."""

    def __init__(self, k, action):
        Endpoint.__init__(self)
        self.k = k
        self.action = action
        self.app_errors = []

    def callback(self, handler, opcode, payload):
        Endpoint.callback(self, handler, opcode, payload)
        if self.k == 0 or len(self.log) == self.k:
            try:
                for act in self.action.split("+"):
                    if act == "send":
                        handler.send("re:%d" % len(self.log))
                    elif act == "close":
                        handler.close()
            except Exception as e:
                self.app_errors.append(e)
                raise


def app_written(want, k, action):
    """the server frames the client must find on the wire: what the application sent / one Close frame, RFC 6455 encoded"""
    out = b""
    closed = False
    for i, (op, _) in enumerate(want):
        if k == 0 or i + 1 == k:
            for act in action.split("+"):
                if act == "send":
                    out += ref_encode(1, ("re:%d" % (i + 1)).encode("utf-8"), 0, KEYS[0])
                elif not closed:
                    out += ref_encode(8, struct.pack("!H", 200) + b"OK", 0, KEYS[0])
                    closed = True
        if op == WebSocketOpCode.Close.value and not closed:
            out += ref_encode(8, struct.pack("!H", 200) + b"OK", 0, KEYS[0])
            closed = True
    return out


def feed_app(data, cuts, k, action, via_channel=False):
    ep = AppEndpoint(k, action)
    req = FakeRequest()
    buf = WebSocketTemporaryRingBuffer(req)
    handler = WebSocketTemporaryHandler(("1.2.3.4", 5), {}, {}, buf, ep)
    sink = handler
    if via_channel:
        factory = HTTPFactory(router=None)
        chan = factory.buildProtocol(None)
        chan.websocket_callback = handler
        sink = chan.dataReceived
    pos = 0
    err = None
    for c in list(cuts) + [len(data)]:
        chunk = data[pos:c]
        pos = c
        try:
            sink(chunk)
        except Exception as e:
            err = e
            break
    return ep.log, err, b"".join(req.written)


def app_segmentations(N, nframes, k, action, tier):
    """cut positions for the application part: every position; <= 2 cuts when the application closes the websocket (and for the
    echo server, and for every behaviour with one or two frames), <= 1 cut for the other behaviours with three frames (one more
    in the thorough tier); the long streams as in segmentations() with <= 1 cut"""
    if N > 60:
        pts = list(range(1, 16)) + [N // 2, N - 2, N - 1] if N > 5000 else list(range(1, 24)) + list(range(24, N - 12, 7)) + list(range(N - 12, N))
        maxcuts = 1
    else:
        pts = list(range(1, N))
        maxcuts = 2 if (nframes <= 2 or action == "close" or k == 0) else 1
        if tier == "thorough":
            maxcuts += 1
    for c in range(0, maxcuts + 1):
        for cuts in itertools.combinations(pts, c):
            yield cuts


def app_configs(nframes):
    for action in APP_ACTIONS:
        for k in range(1, nframes + 1):
            yield k, action
    yield 0, "send"


def app_check(seq, data, want, cuts, k, action, via_channel, viols, wantw=None):
    log, err, written = feed_app(data, cuts, k, action, via_channel)
    if wantw is None:
        wantw = app_written(want, k, action)
    if err is None and written == wantw and len(log) == len(want) and [(o, bytes(p) if not isinstance(p, str) else p) for o, p in log] == want:
        return len(log)
    if k == 0:
        when = "the endpoint answers every frame with send() from inside its callback"
    else:
        rest = len(seq) - k
        when = "the endpoint calls %s from inside its callback%s" % (
            {"close": "ws.close()", "send": "ws.send()", "send+close": "ws.send() and ws.close()"}[action],
            " and further client frames follow" if rest else " on the last frame")
    wit = {"part": "stream-app", "frames": [(op.value, ln) for op, ln in seq], "cuts": list(cuts), "k": k, "action": action, "via_channel": bool(via_channel)}
    if err is not None:
        viols.setdefault(("stream-raises", "the handler raises %s when %s" % (type(err).__name__, when)), [0, wit, repr(err)])[0] += 1
        return len(log)
    norm = [(o, bytes(p) if not isinstance(p, str) else p) for o, p in log]
    if norm != want:
        what = "lost" if len(norm) < len(want) else ("duplicated/extra" if len(norm) > len(want) else "garbled / out of order")
        where = ""
        if k and len(norm) < len(want):
            # where was the first lost frame relative to the read that held frame k?
            ends, pos = [], 0
            for fr in seq:
                pos += len(encode_seq([fr])[0])
                ends.append(pos)
            bounds = list(cuts) + [len(data)]
            read_of = lambda e: next(i for i, b in enumerate(bounds) if e <= b)
            lost = len(norm)
            where = " (the lost frame completes in %s)" % ("the same read as the frame being handled" if lost < len(ends) and k <= len(ends) and read_of(ends[lost]) == read_of(ends[k - 1]) else "a later read")
        viols.setdefault(("stream-delivery", "client frames %s when %s%s" % (what, when, where)),
                         [0, wit, "delivered %r, sent %r" % ([(o, p[:6]) for o, p in norm][:4], [(o, p[:6]) for o, p in want][:4])])[0] += 1
        return len(log)
    if written != wantw:
        viols.setdefault(("app-frames-written", "server frames on the wire are not the RFC 6455 frames the application sent / one Close frame when %s" % when),
                         [0, wit, "%d bytes written %s, expected %d bytes %s" % (len(written), written[:24].hex(), len(wantw), wantw[:24].hex())])[0] += 1
    return len(log)


def app_work_init(tier):
    stream_work_init(tier)


def app_work(arg):
    k_, n = arg
    viols = {}
    total = 0
    states = set()
    followed = 0
    for si, seq in enumerate(_SEQS):
        if si % n != k_:
            continue
        data, want = encode_seq(seq)
        N = len(data)
        for k, action in app_configs(len(seq)):
            first = True
            wantw = app_written(want, k, action)
            for cuts in app_segmentations(N, len(seq), k, action, _TIER):
                total += 1
                if k and k < len(seq):
                    followed += 1
                nlog = app_check(seq, data, want, cuts, k, action, first, viols, wantw)
                first = False
                states.add((si, k, action, len(cuts), nlog))
    return total, len(states), viols, followed


def _conn():
    ep = Endpoint()
    req = FakeRequest()
    buf = WebSocketTemporaryRingBuffer(req)
    return ep, WebSocketTemporaryHandler(("1.2.3.4", 5), {}, {}, buf, ep)


TWO_SEQS = [[(WebSocketOpCode.Binary, 5)], [(WebSocketOpCode.Text, 1), (WebSocketOpCode.Ping, 0)], [(WebSocketOpCode.Binary, 1), (WebSocketOpCode.Binary, 5)],
            [(WebSocketOpCode.Text, 5)], [(WebSocketOpCode.Ping, 5), (WebSocketOpCode.Text, -3)]]


def two_conn_work_init(tier):
    stream_work_init(tier)


def two_conn_work(arg):
    """two websocket connections of one server process at the same time: each stream is cut once (every position) and the four
    chunks arrive in every order that keeps the order within a connection; and a connection that ends in the middle of a frame
    followed by a new one.  Every endpoint gets exactly its own frames."""
    k, n = arg
    viols = {}
    total = 0
    merges = [p for p in set(itertools.permutations("AABB")) if True]
    idx = 0
    for sa in TWO_SEQS:
        for sb in TWO_SEQS:
            idx += 1
            if idx % n != k:
                continue
            da, wa = encode_seq(sa)
            db, wb = encode_seq([(op, ln) for op, ln in reversed(sb)] if sa is sb else sb)
            if sa is sb:
                wb = encode_seq([(op, ln) for op, ln in reversed(sb)])[1]
            for ca in range(1, len(da)):
                for cb in range(1, len(db)):
                    for order in merges:
                        total += 1
                        (epa, ha), (epb, hb) = _conn(), _conn()
                        chunks = {"A": [da[:ca], da[ca:]], "B": [db[:cb], db[cb:]]}
                        err = None
                        try:
                            for who in order:
                                (ha if who == "A" else hb)(chunks[who].pop(0))
                        except Exception as e:
                            err = e
                        la = [(o, bytes(p) if not isinstance(p, str) else p) for o, p in epa.log]
                        lb = [(o, bytes(p) if not isinstance(p, str) else p) for o, p in epb.log]
                        if err is not None or la != wa or lb != wb:
                            wit = {"part": "two-connections", "a": [(op.value, ln) for op, ln in sa], "b": [(op.value, ln) for op, ln in sb], "cut_a": ca, "cut_b": cb, "order": "".join(order)}
                            viols.setdefault(("stream-delivery", "frames of two simultaneous connections are not delivered each to its own endpoint (%s)" % (
                                "handler raises %s" % type(err).__name__ if err is not None else "lost / mixed up")), [0, wit,
                                "chunk order %s: A got %r (sent %r), B got %r (sent %r) %r" % ("".join(order), la[:3], wa[:3], lb[:3], wb[:3], err)])[0] += 1
            # connection A dies in the middle of a frame; connection B opens afterwards
            for ca in range(1, len(da)):
                total += 1
                (epa, ha), (epb, hb) = _conn(), _conn()
                err = None
                try:
                    ha(da[:ca])
                    hb(db)
                except Exception as e:
                    err = e
                lb = [(o, bytes(p) if not isinstance(p, str) else p) for o, p in epb.log]
                if err is not None or lb != wb:
                    wit = {"part": "two-connections", "a": [(op.value, ln) for op, ln in sa], "b": [(op.value, ln) for op, ln in sb], "cut_a": ca, "cut_b": 0, "order": "AB"}
                    viols.setdefault(("stream-delivery", "a connection opened after another one ended in the middle of a frame does not get its own frames"), [0, wit,
                                     "A fed %d of %d bytes, then B: got %r, sent %r %r" % (ca, len(da), lb[:3], wb[:3], err)])[0] += 1
    return total, 0, viols


def _samples(tier):
    out = []
    seqs = frame_sequences(tier)
    for si in (9, 77, 300):
        seq = seqs[si % len(seqs)]
        data, want = encode_seq(seq)
        cuts = next(itertools.islice(segmentations(len(data), tier), 37, None))
        log, err, written = feed(data, cuts)
        out.append({"frames": [(op.value, n) for op, n in seq], "stream_bytes": len(data), "cuts": list(cuts), "frames_delivered": len(log), "error": repr(err) if err else None})
    f = build_frame(WebSocketOpCode.Binary, payload_of(65535), 1, KEYS[1])
    out.append({"codec": {"opcode": 2, "mask": 1, "length": 65535, "header_hex": (f.serializeHeader() + f.serializeDataHeader()).hex()}})
    return out


def run(tier, seed):
    rep = core.Report()
    acc = {}
    ls = lengths(tier)
    chunks = [ls[i::48] for i in range(48) if ls[i::48]]
    res = core.pmap("checks.c18", "codec_work", chunks, initargs=(tier,))
    c_total = sum(r[0] for r in res)
    c_ok = sum(r[1] for r in res)
    for r in res:
        for key, (cnt, wit, msg) in r[2].items():
            if key not in acc:
                acc[key] = [0, wit, msg]
            acc[key][0] += cnt
    fls = [n_ for n_ in ls if n_ <= 70000]
    res = core.pmap("checks.c18", "factory_work", [fls[i::48] for i in range(48) if fls[i::48]], initargs=(tier,))
    f_total = sum(r[0] for r in res)
    f_ok = sum(r[1] for r in res)
    for r in res:
        for key, (cnt, wit, msg) in r[2].items():
            if key not in acc:
                acc[key] = [0, wit, msg]
            acc[key][0] += cnt
    n = 32
    res = core.pmap("checks.c18", "stream_work", [((k + seed) % n, n) for k in range(n)], initargs=(tier,))
    s_total = sum(r[0] for r in res)
    s_states = sum(r[1] for r in res)
    for r in res:
        for key, (cnt, wit, msg) in r[2].items():
            if key not in acc:
                acc[key] = [0, wit, msg]
            acc[key][0] += cnt
    res = core.pmap("checks.c18", "app_work", [((k + seed) % n, n) for k in range(n)], initargs=(tier,))
    a_total = sum(r[0] for r in res)
    a_states = sum(r[1] for r in res)
    a_followed = sum(r[3] for r in res)
    for r in res:
        for key, (cnt, wit, msg) in r[2].items():
            if key not in acc:
                acc[key] = [0, wit, msg]
            acc[key][0] += cnt
    res = core.pmap("checks.c18", "two_conn_work", [(k, 8) for k in range(8)], initargs=(tier,))
    t_total = sum(r[0] for r in res)
    for r in res:
        for key, (cnt, wit, msg) in r[2].items():
            if key not in acc:
                acc[key] = [0, wit, msg]
            acc[key][0] += cnt
    for (oracle, sig), (cnt, wit, msg) in sorted(acc.items()):
        rep.add_violation(core.Violation(oracle, sig, wit, "%s [%d cases]" % (msg[:300], cnt)))
    rep.coverage = {
        "two_connection_interleavings": t_total,
        "app_segmentations": a_total, "app_states": a_states, "app_action_followed_by_client_frames": a_followed, "app_actions": len(APP_ACTIONS) + 1,
        "states": s_states + c_ok + f_ok, "transitions": s_total + c_total + f_total, "traces_validated_against_impl": s_total,
        "codec_frames": c_total, "codec_exact": c_ok, "factory_frames": f_total, "factory_exact": f_ok, "codec_lengths": len(ls), "stream_segmentations": s_total, "stream_frame_sequences": len(frame_sequences(tier)),
        "evaluations": c_total + s_total + f_total, "distinct_nontrivial": s_states + c_ok + f_ok,
        "rule": "codec: %d payload lengths (all 125/126/127 and 65535/65536 boundaries%s) x 5 opcodes x mask 0/1 x masking keys, writer vs independent RFC 6455 encoder and reader on the writer's output; "
                "factory: the same lengths through every public constructor (Text with 1/2/3/4-byte characters and a mix, Binary, Ping, Pong, Close x 4 status codes) and through handler.send()/close(); "
                "stream: %d sequences of 1-3 masked client frames, every segmentation for N<=18 bytes (2^(N-1)), <=%d cuts otherwise; states = distinct (sequence, #cuts, #frames delivered); "
                "application: the same sequences, the endpoint closes the websocket / sends a frame / both from inside the callback of its k-th frame (every k) or answers every frame, "
                "every position <= 2 cuts (<= 1 for send / send+close with three frames and for streams > 60 bytes; one more in the thorough tier): every client frame - also those pipelined after the close and the client's Close reply - delivered exactly once in order, "
                "and the server frames on the wire are what the application sent plus one Close frame" % (
                    len(ls), "" if tier == "quick" else ", every length 0..2000, 65000..66200, every 97th to 70000", len(frame_sequences(tier)), 2 if tier == "quick" else 3),
        "exhaustive": True,
        "samples": core.safe_samples(lambda: _samples(tier)),
    }
    rep.assumptions = ["client frames are produced by the reference encoder (masked, fin=1); fragmentation (fin=0) and control-frame interleaving are outside the statement"]
    return rep


def replay(witness):
    if witness.get("part") == "codec":
        global _TIER
        _TIER = "thorough"
        total, ok, viols = codec_work([witness["length"]])
        return [core.Violation(k[0], k[1], witness, v[2]) for k, v in viols.items()]
    if witness.get("part") == "factory":
        total, ok, viols = factory_work([witness["length"]])
        return [core.Violation(k[0], k[1], witness, v[2]) for k, v in viols.items()]
    if witness.get("part") == "two-connections":
        stream_work_init("quick")
        out = []
        for k in range(8):
            t, _, viols = two_conn_work((k, 8))
            out += [core.Violation(kk[0], kk[1], witness, v[2]) for kk, v in viols.items()]
        return out
    if witness.get("part") == "stream-app":
        seq = [(WebSocketOpCode(op), ln) for op, ln in witness["frames"]]
        data, want = encode_seq(seq)
        viols = {}
        app_check(seq, data, want, witness["cuts"], witness["k"], witness["action"], witness.get("via_channel", False), viols)
        return [core.Violation(k[0], k[1], witness, v[2]) for k, v in viols.items()]
    if witness.get("part") == "stream":
        seq = [(WebSocketOpCode(op), ln) for op, ln in witness["frames"]]
        data, want = encode_seq(seq)
        log, err, written = feed(data, witness["cuts"])
        norm = [(o, bytes(p) if not isinstance(p, str) else p) for o, p in log]
        if err is not None or norm != want:
            return [core.Violation("stream-delivery", "replayed segmentation fails", witness, repr(err) if err else "delivered %d of %d" % (len(norm), len(want)))]
    return []
