"""Ownership of every source of nondeterminism, from outside the package.

Nothing in /repo is modified: module attributes (``time``, ``os``, ``socket``,
``select``, ``reactor``, ``sleep``) and one staticmethod
(``EllipticCurvePrivateKey.new``) are replaced while a world is alive and
restored afterwards.
"""
import os
import json
import hashlib
import threading

from mc import core

core.import_repo()

import mpgameserver.connection as m_connection  # noqa
import mpgameserver.crypto as m_crypto  # noqa
import mpgameserver.context as m_context  # noqa
import mpgameserver.server as m_server  # noqa
import mpgameserver.client as m_client  # noqa
import mpgameserver.twisted as m_twisted  # noqa
import mpgameserver.auth as m_auth  # noqa
import mpgameserver.http_server as m_http  # noqa

_REAL_TIME = m_connection.time
_REAL_OS = os


class VirtualTime(object):
    """replacement for the ``time`` module inside the package"""

    def __init__(self, start=1000.0):
        self.now = start

    def time(self):
        return self.now

    def monotonic(self):
        return self.now

    def perf_counter(self):
        return self.now

    def sleep(self, d):
        # the harness decides when time passes
        pass

    def __getattr__(self, name):
        return getattr(_REAL_TIME, name)


class OsProxy(object):
    """replacement for the ``os`` module inside the package: only urandom differs"""

    def __init__(self, source):
        self._source = source

    def urandom(self, n):
        return self._source(n)

    def __getattr__(self, name):
        return getattr(_REAL_OS, name)


class CounterRandom(object):
    """deterministic byte stream"""

    def __init__(self, seed=0):
        self.seed = seed
        self.n = 0

    def __call__(self, n):
        out = b""
        while len(out) < n:
            out += hashlib.sha256(b"%d:%d" % (self.seed, self.n)).digest()
            self.n += 1
        return out[:n]


_KEYS = None


def fixture_keys():
    global _KEYS
    if _KEYS is None:
        with open(os.path.join(core.VERIF_DIR, "fixtures", "keys.json")) as f:
            pems = json.load(f)["keys"]
        _KEYS = [m_crypto.EllipticCurvePrivateKey.fromPEM(p) for p in pems]
    return _KEYS


class KeyPool(object):
    def __init__(self, offset=0):
        self.keys = fixture_keys()
        self.i = offset

    def new(self):
        k = self.keys[self.i % len(self.keys)]
        self.i += 1
        return k


class FakeSocket(object):
    """stands in for the client's UDP socket"""

    def __init__(self, owner):
        self.owner = owner
        self.inbox = []
        self.closed = False

    def sendto(self, datagram, addr):
        self.owner.on_client_sendto(self, datagram, addr)

    def recvfrom(self, n):
        datagram = self.inbox.pop(0)
        return datagram[:n], self.owner.server_addr

    def close(self):
        self.closed = True

    def fileno(self):
        return -1


class FakeSocketModule(object):
    AF_INET = 2
    AF_INET6 = 10
    SOCK_DGRAM = 2
    SOL_SOCKET = 1
    SO_REUSEADDR = 2

    def __init__(self, owner):
        self.owner = owner

    def socket(self, *args):
        s = FakeSocket(self.owner)
        self.owner.sockets.append(s)
        return s

    def __getattr__(self, name):
        import socket as real
        return getattr(real, name)


class FakeSelectModule(object):
    def select(self, r, w, x, timeout=None):
        return [s for s in r if s.inbox], list(w), []


class DirectReactor(object):
    def callFromThread(self, fn, *args, **kwargs):
        return fn(*args, **kwargs)


class FakeLock(object):
    def acquire(self, *a, **k):
        return True

    def release(self):
        pass

    def __enter__(self):
        return self

    def __exit__(self, *a):
        return False


class ServerStall(Exception):
    """one iteration of the real server loop did not return: it blocks or spins (a finding, with the choice list attached)"""


class Baton(object):
    """cooperative hand-off between the harness thread and ONE server thread.

    The server thread only runs between ``resume()`` and its next ``pause()``;
    the harness thread is blocked meanwhile.  Hence there is exactly one
    runnable thread at any time and the schedule is the harness's."""

    def __init__(self):
        self.to_server = threading.Semaphore(0)
        self.to_harness = threading.Semaphore(0)
        self.dead = False
        self.stalled = False
        self.stall_timeout = 60
        self.error = None
        self.where = None  # label of the current pause point

    # called on the server thread
    def pause(self, where):
        self.where = where
        self.to_harness.release()
        self.to_server.acquire()

    # called on the harness thread
    def resume(self):
        if self.dead or self.stalled:
            return False
        self.to_server.release()
        if not self.to_harness.acquire(timeout=self.stall_timeout):
            self.stalled = True
            raise ServerStall("server thread did not come back to a pause point within %d s (last pause: %s)" % (self.stall_timeout, self.where))
        return not self.dead


class FakeCondition(object):
    """Condition.wait() on the server thread becomes a pause point"""

    def __init__(self, baton):
        self.baton = baton

    def __enter__(self):
        return self

    def __exit__(self, *a):
        return False

    def notify_all(self):
        pass

    def notify(self, n=1):
        pass

    def wait(self, timeout=None):
        self.baton.pause("cv_wait")
        return True


class Patches(object):
    """install / remove the seams"""

    def __init__(self):
        self.saved = []

    def set(self, obj, name, value):
        self.saved.append((obj, name, obj.__dict__[name] if name in getattr(obj, "__dict__", {}) else getattr(obj, name)))
        setattr(obj, name, value)

    def undo(self):
        for obj, name, old in reversed(self.saved):
            setattr(obj, name, old)
        self.saved = []


def install(vt, rnd, keypool, owner=None, patches=None):
    p = patches or Patches()
    for mod in (m_connection, m_server, m_client, m_http):
        p.set(mod, "time", vt)
    p.set(m_server, "sleep", lambda *a, **k: None)
    osproxy = OsProxy(rnd)
    for mod in (m_connection, m_crypto, m_context, m_auth):
        p.set(mod, "os", osproxy)
    if keypool is not None:
        p.set(m_crypto.EllipticCurvePrivateKey, "new", staticmethod(keypool.new))
    if owner is not None:
        p.set(m_client, "socket", FakeSocketModule(owner))
        p.set(m_client, "select", FakeSelectModule())
        p.set(m_twisted, "reactor", DirectReactor())
    return p
