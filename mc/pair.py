"""Shared pieces for the two-endpoint scenarios (C03-C09): payloads with
markers, the delivery/callback reference monitor, program execution."""
import collections

from mc import core
from mc.world import World, Monitor, snapshot, diff_snap
from mpgameserver.connection import RetryMode, Packet, ConnectionStatus, PacketHeader, PacketType

RETRY = {"none": RetryMode.NONE, "best": RetryMode.BEST_EFFORT, "retry": RetryMode.RETRY_ON_TIMEOUT}


def payload(tag, size, salt=0):
    """distinct, position dependent content: any shifted / dropped / repeated slice changes it"""
    head = b"<m%03d:%07d:%02d>" % (tag, size, salt % 100)
    if size <= len(head):
        return head[:size]
    body = bytes(((i * 7 + tag * 13 + (i >> 8) * 3 + salt) & 0xFF) for i in range(size - len(head)))
    return head + body


class DeliveryMonitor(Monitor):
    """reference model: what each application sent, what each application was
    handed, which callbacks fired.  Checks fabrication and multiplicity on
    every delivery (C04 / C06 core)."""

    def __init__(self, check_dup_datagram=False, flag_delivery=True, flag_stale_window_duplicates=True):
        # flag_stale_window_duplicates=False: a second delivery of a copy that arrived after >= 256 newer message numbers
        # is C04's known finding F02b; checks of OTHER properties that use such schedules do not report it
        self.flag_stale_window_duplicates = flag_stale_window_duplicates
        Monitor.__init__(self)
        # fabricated / at-most-once verdicts belong to C04 and C06; other checks only use the bookkeeping
        self.flag_delivery = flag_delivery
        self.sent = {"c": collections.Counter(), "s": collections.Counter()}      # by sender
        self.delivered = {"c": collections.Counter(), "s": collections.Counter()}  # by receiver
        self.delivery_log = []  # (receiver, payload, time)
        self.callbacks = collections.defaultdict(list)  # tag -> [(success, time)]
        self.accepted = {}  # id(conn) -> set of datagram bytes accepted
        self.check_dup_datagram = check_dup_datagram
        self.dup_drops = 0

    def note_sent(self, sender, data):
        self.sent[sender][data] += 1

    def on_app_message(self, w, end, seq, data):
        recv = end[0]
        sender = "s" if recv == "c" else "c"
        self.delivered[recv][data] += 1
        self.delivery_log.append((recv, data, w.vt.now))
        n_sent = self.sent[sender].get(data, 0)
        if not self.flag_delivery:
            return
        if n_sent == 0:
            self.flag("fabricated", "delivered payload was never sent (len %d)" % len(data),
                      "endpoint %s was handed %d bytes %r... that its peer never sent" % (recv, len(data), data[:24]))
        elif self.delivered[recv][data] > n_sent:
            conn = w.clients[0].conn if recv == "c" else w.server_conn(0)
            why = "inside the 256-message window"
            try:
                if conn is not None and conn.bitfield_msg.current_seqnum.diff(seq) > conn.bitfield_msg.nbits:
                    why = "copy arrived after >=256 newer message seqs had been accepted"
            except Exception:
                pass
            if why.startswith("copy arrived") and not self.flag_stale_window_duplicates:
                return
            self.flag("at-most-once", "payload delivered more often than sent [%s]" % why,
                      "endpoint %s was handed payload %r... %d times, sent %d time(s)" % (
                          recv, data[:20], self.delivered[recv][data], n_sent))

    def on_callback(self, w, end, tag, success):
        self.callbacks[tag].append((success, w.vt.now))

    def before_recv(self, w, conn, hdr, datagram):
        if not self.check_dup_datagram:
            return None
        acc = self.accepted.setdefault(w.serial(conn), set())
        if datagram in acc:
            return snapshot(conn)
        return None

    def on_recv_result(self, w, conn, hdr, datagram, result, before):
        if not self.check_dup_datagram:
            return
        acc = self.accepted.setdefault(w.serial(conn), set())
        if before is not None:
            snap0, drop0 = before
            snap1, drop1 = snapshot(conn)
            self.dup_drops += 1
            if result is not False or drop1 != drop0 + 1 or snap0 != snap1:
                changed = diff_snap(snap0, snap1)
                self.flag("duplicate-dropped-whole",
                          "datagram already accepted is processed again (result=%s, fields changed: %s)" % (result, ",".join(changed) or "-"),
                          "a byte-identical copy of an accepted %s datagram seq=%d was not dropped whole: result=%r dropped %d->%d changed=%s" % (
                              hdr.pkt_type, hdr.seq, result, drop0, drop1, changed))
        elif result:
            acc.add(bytes(datagram))

    def state(self):
        return (tuple(sorted(self.delivered["c"].items())), tuple(sorted(self.delivered["s"].items())),
                tuple(sorted((k, tuple(s for s, _ in v)) for k, v in self.callbacks.items())),
                len(self.violations))


def app_send(w, mon, sender, data, retry="none", tag=None, api="send"):
    """application level send on either end; returns exception or None"""
    cb = w.make_cb(sender, tag) if tag is not None else None
    mon.note_sent(sender, data)
    try:
        if sender == "c":
            cl = w.clients[0].client
            if api == "send_guaranteed":
                cl.send_guaranteed(data, callback=cb)
            else:
                cl.send(data, retry=RETRY[retry].value, callback=cb)
        else:
            sc = w.server_conn(0)
            if api == "send_guaranteed":
                sc.send_guaranteed(data, callback=cb)
            else:
                sc.send(data, retry=RETRY[retry], callback=cb)
    except Exception as e:
        return e
    return None


def add_bystander(w, mon):
    """a SECOND client of the same server (w must have n_clients >= 2) keeps exchanging traffic of every kind with it over a
    perfect link - small unretried messages both ways every tick, guaranteed ones every 8th, fragmented guaranteed ones every
    16th - while every fault, replay and oracle stays on client 0.  State that ought to be per connection but is shared
    (a class-level table, a mutable default, a module cache keyed by a number only) shows as damage to client 0's conversation."""
    import struct as _st
    ce = w.clients[1]
    k = [0]
    orig = w.tick
    NONE = RETRY["none"]

    def tick(dt=None):
        k[0] += 1
        n = k[0]
        sc = w.ctxt.connections.get(ce.addr)
        try:
            if ce.client.connected() and sc is not None and sc.status == ConnectionStatus.CONNECTED:
                small = b"by" + _st.pack(">I", n)
                mon.note_sent("c", b"c" + small)
                ce.client.send(b"c" + small, retry=NONE.value)
                mon.note_sent("s", b"s" + small)
                sc.send(b"s" + small, retry=NONE)
                if n % 8 == 3:
                    g = b"byG" + _st.pack(">I", n) * 10
                    mon.note_sent("c", b"c" + g)
                    ce.client.send_guaranteed(b"c" + g)
                    mon.note_sent("s", b"s" + g)
                    sc.send_guaranteed(b"s" + g)
                if n % 16 == 5:
                    f = payload(900 + n % 90, 2500, n)
                    mon.note_sent("c", b"c" + f)
                    ce.client.send_guaranteed(b"c" + f)
                    mon.note_sent("s", b"s" + f)
                    sc.send_guaranteed(b"s" + f)
        except Exception as e:
            w.exceptions.append(("bystander.send", repr(e)))
        orig(dt)
    w.tick = tick
    addr0 = w.clients[0].addr
    w.fate_filter = lambda w_, d: d.client_addr == addr0


def quiescent(w):
    """nothing in flight, nothing queued, nothing awaiting ack/retry on either end"""
    if w.net:
        return False
    for s in w.sockets:
        if s.inbox:
            return False
    for c in (w.clients[0].conn, w.server_conn(0)):
        if c is None:
            continue
        if c.outgoing_messages or c.pending_retry_msg or c.pending_retry:
            return False
    return True
