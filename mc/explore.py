"""Engine A: deviation-bounded stateless exploration with prefix replay.

A *scenario* is a plain function ``scenario(params, ch)`` that builds a fresh
world, runs it to completion and asks ``ch.choose(kind, options)`` wherever the
environment has a choice.  ``options`` is a list of ``(label, cost)``; index 0
is the default answer (cost 0).  The explorer enumerates every choice sequence
whose total cost is <= bound: run(prefix) replays the prefix and answers 0
afterwards; every later point x every alternative within budget is recursed
into.  Optional explicit-state pruning: ``choose(..., key=fn)`` supplies a
canonical state; a state already expanded with the same remaining budget is not
expanded again.
"""
import importlib
import time

from mc import core, seams


class Pruned(Exception):
    pass


class Nondeterminism(Exception):
    pass


class Chooser(object):
    def __init__(self, prefix, bound, seen=None, trace_keys=None):
        self.prefix = prefix
        self.bound = bound
        self.seen = seen
        self.points = []   # options at each point
        self.choices = []
        self.cost = 0
        self.found = []    # (oracle, sig, message)
        self.outcome = None
        self.steps = 0
        self.new_states = 0
        self.pruned = False
        self.info = {}

    def choose(self, kind, options, key=None):
        i = len(self.choices)
        if i < len(self.prefix):
            c = self.prefix[i]
            if c >= len(options):
                raise Nondeterminism("replaying choice %d=%d but only %d options (%s) are offered" % (i, c, len(options), kind))
        else:
            c = 0
            if self.seen is not None and key is not None:
                k = (key(), self.bound - self.cost)
                if k in self.seen:
                    self.pruned = True
                    raise Pruned()
                self.seen.add(k)
                self.new_states += 1
        self.points.append(options)
        self.choices.append(c)
        self.cost += options[c][1]
        return c

    def flag(self, oracle, sig, message):
        self.found.append((oracle, sig, message))

    def labels(self):
        return [self.points[i][c][0] for i, c in enumerate(self.choices) if c != 0]


class Stats(object):
    def __init__(self):
        self.executions = 0
        self.points = 0          # choice points visited beyond the replayed prefix (= execution tree nodes)
        self.replayed = 0        # choice points replayed
        self.hashed_states = 0
        self.pruned = 0
        self.by_cost = {}
        self.outcomes = set()
        self.violations = []     # dict(params, choices, labels, oracle, sig, message, cost)
        self.capped = False
        self.samples = []
        self.steps = 0

    def merge(self, o):
        self.executions += o.executions
        self.points += o.points
        self.replayed += o.replayed
        self.hashed_states += o.hashed_states
        self.pruned += o.pruned
        self.steps += o.steps
        for k, v in o.by_cost.items():
            self.by_cost[k] = self.by_cost.get(k, 0) + v
        self.outcomes |= o.outcomes
        self.violations.extend(o.violations)
        self.capped = self.capped or o.capped
        if len(self.samples) < 6:
            self.samples.extend(o.samples[:2])


class Explorer(object):
    def __init__(self, scenario, params, bound, use_hash=False, max_exec=None, deadline=None):
        self.scenario = scenario
        self.params = params
        self.bound = bound
        self.seen = set() if use_hash else None
        self.stats = Stats()
        self.max_exec = max_exec
        self.deadline = deadline
        self.viol_sigs = {}

    def run(self, prefix):
        ch = Chooser(prefix, self.bound, self.seen)
        try:
            self.scenario(self.params, ch)
        except Pruned:
            pass
        except seams.ServerStall as e:
            # a genuine stall is deterministic: replay the very same choices once before believing it
            self.stats.stall_retries = getattr(self.stats, "stall_retries", 0) + 1
            ch2 = Chooser(list(ch.choices), 10 ** 9, None)
            try:
                self.scenario(self.params, ch2)
                ch2.bound = self.bound
                ch = ch2
                ch.prefix = prefix
            except Pruned:
                pass
            except seams.ServerStall as e2:
                ch.flag("server-stall", "an iteration of the server loop never returns (blocks or spins)", str(e2))
        st = self.stats
        st.executions += 1
        st.points += max(0, len(ch.choices) - len(prefix))
        st.replayed += min(len(prefix), len(ch.choices))
        st.hashed_states += ch.new_states
        st.pruned += 1 if ch.pruned else 0
        st.steps += ch.steps
        st.by_cost[ch.cost] = st.by_cost.get(ch.cost, 0) + 1
        if ch.outcome is not None:
            st.outcomes.add(core.stable_hash(ch.outcome))
        if len(ch.choices) < len(prefix):
            raise Nondeterminism("execution offered %d choice points, prefix has %d" % (len(ch.choices), len(prefix)))
        for oracle, sig, message in ch.found:
            key = (oracle, sig)
            n = self.viol_sigs.get(key, 0)
            self.viol_sigs[key] = n + 1
            if n < 3:  # keep a few witnesses per signature, count the rest
                st.violations.append({"params": self.params, "choices": list(ch.choices), "labels": ch.labels(),
                                      "oracle": oracle, "sig": sig, "message": message, "cost": ch.cost})
        if len(st.samples) < 2 or (ch.cost and len(st.samples) < 4 and all(s["cost"] != ch.cost for s in st.samples)):
            st.samples.append({"params": core.jsonable(self.params), "deviations": ch.labels(), "cost": ch.cost,
                               "choice_points": len(ch.choices), "outcome": core.jsonable(ch.outcome)})
        return ch

    def explore(self, prefix=()):
        prefix = list(prefix)
        if self.max_exec is not None and self.stats.executions >= self.max_exec:
            self.stats.capped = True
            return
        if self.deadline is not None and time.time() > self.deadline:
            self.stats.capped = True
            return
        ch = self.run(prefix)
        base = 0
        for i, c in enumerate(ch.choices[:len(prefix)]):
            base += ch.points[i][c][1]
        for i in range(len(prefix), len(ch.choices)):
            opts = ch.points[i]
            for alt in range(1, len(opts)):
                if base + opts[alt][1] <= self.bound:
                    self.explore(ch.choices[:i] + [alt])

    def first_level(self):
        """run the default execution and list the prefixes of all first deviations"""
        ch = self.run([])
        out = []
        for i in range(len(ch.choices)):
            opts = ch.points[i]
            for alt in range(1, len(opts)):
                if opts[alt][1] <= self.bound:
                    out.append(ch.choices[:i] + [alt])
        return out


# --------------------------------------------------------------------------
# process pool plumbing

_CFG = {}


def job_init(module, fn):
    mod = importlib.import_module(module)
    _CFG["scenario"] = getattr(mod, fn)
    init = getattr(mod, fn + "_init", None)
    if init:
        init()


def determinism_selftest_init(module, fn):
    job_init(module, fn)


def job(arg):
    kind, params, bound, use_hash, prefix, max_exec, deadline = arg
    ex = Explorer(_CFG["scenario"], params, bound, use_hash, max_exec, deadline)
    if kind == "root":
        prefixes = ex.first_level()   # also for bound 0: alternatives of cost 0 (configuration-like choices) are explored
        return ("root", params, prefixes, ex.stats, dict(ex.viol_sigs))
    ex.explore(prefix)
    return ("sub", params, None, ex.stats, dict(ex.viol_sigs))


def determinism_selftest(arg):
    """the same schedule executed twice on fresh worlds must give identical observations (choice points offered,
    outcome, steps, verdicts); otherwise a source of nondeterminism is not owned and nothing the check says can be trusted"""
    params, bound = arg
    scenario = _CFG["scenario"]
    ex = Explorer(scenario, params, bound)
    prefixes = ex.first_level()
    schedules = [[]] + ([prefixes[len(prefixes) // 2]] if prefixes else [])
    for sched in schedules:
        obs = []
        for _ in range(2):
            ch = replay_choices(scenario, params, sched)
            obs.append((len(ch.choices), [len(o) for o in ch.points], repr(ch.outcome), ch.steps, sorted(ch.found)))
        if obs[0] != obs[1]:
            return ("schedule %r of params %r: %r vs %r" % (sched, params, obs[0], obs[1]), bool(obs[0][4] or obs[1][4]))
    return None


def explore_all(module, fn, params_list, bound, use_hash=False, max_exec_per_job=None, time_budget=None, jobs=None):
    """explore every params x every choice sequence of cost <= bound.

    work split: one root job per params (default run + enumeration of first
    deviations), then one job per (params, first deviation)."""
    deadline = time.time() + time_budget if time_budget else None
    if params_list:
        # determinism self-test on the first and the last configuration (in a worker, like every other execution)
        probe = [(params_list[0], bound)] + ([(params_list[-1], bound)] if len(params_list) > 1 else [])
        for bad in core.pmap("mc.explore", "determinism_selftest", probe, initargs=(module, fn), jobs=jobs):
            if bad:
                if bad[1]:
                    # the two executions differ AND at least one of them already violates the property: the code under test
                    # keeps state that outlives its connection objects (a class-level or module-level table), so an execution
                    # depends on the sessions the process served before it.  That is behaviour of the code, not of the harness:
                    # go on (every worker's first execution starts from a clean process) and let the oracles report it.
                    print("HARNESS-NOTE: executions of one schedule differ inside one process (library state outlives its connections?): %s" % bad[0][:300])
                    continue
                raise Nondeterminism("NONDETERMINISM: " + bad[0])
    total = Stats()
    sigs = {}
    roots = [("root", p, bound, False, None, None, None) for p in params_list]
    res = core.pmap("mc.explore", "job", roots, initargs=(module, fn), jobs=jobs)
    subs = []
    for kind, params, prefixes, st, vs in res:
        total.merge(st)
        for k, v in vs.items():
            sigs[k] = sigs.get(k, 0) + v
        for pre in prefixes or []:
            subs.append(("sub", params, bound, use_hash, pre, max_exec_per_job, deadline))
    if subs:
        res = core.pmap("mc.explore", "job", subs, initargs=(module, fn), jobs=jobs,
                        chunksize=max(1, len(subs) // (8 * core.ncpu())))
        for kind, params, prefixes, st, vs in res:
            total.merge(st)
            for k, v in vs.items():
                sigs[k] = sigs.get(k, 0) + v
    total.sig_counts = sigs
    return total


def replay_choices(scenario, params, choices):
    """plain re-execution of one recorded choice list (no exploration)"""
    ch = Chooser(list(choices), 10 ** 9, None)
    try:
        scenario(params, ch)
    except Pruned:
        pass
    except seams.ServerStall as e:
        ch.flag("server-stall", "an iteration of the server loop never returns (blocks or spins)", str(e))
    return ch
