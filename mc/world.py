"""The full-stack world: real UdpClient(s) <-> harness-owned network <->
TwistedServer.datagramReceived -> unmodified UdpServerThread.run (on a thread
under a baton) -> recording EventHandler.

All time is virtual.  One ``tick`` = advance the clock by one frame, then let
each endpoint take its turn (order configurable); before an endpoint's turn
every datagram addressed to it whose release tick has come is delivered in
FIFO order.
"""
import threading

from mc import core, seams
from mc.seams import m_connection, m_client, m_twisted, m_server, m_context, m_crypto

from mpgameserver.connection import (ConnectionBase, ConnectionStatus, PacketHeader, Packet, PacketType,
                                     RetryMode, SeqNum, ServerClientConnection, ClientServerConnection)
from mpgameserver.handler import EventHandler
from mpgameserver.context import ServerContext
from mpgameserver.client import UdpClient
from mpgameserver.twisted import TwistedServer

SERVER_ADDR = ("10.0.0.1", 4000)


class DefaultChooser(object):
    """always the default (index 0): an honest, fault free run"""

    def choose(self, kind, options, key=None):
        return 0


class Dgram(object):
    __slots__ = ("id", "src", "dst", "data", "sent_tick", "release_tick", "sent_time", "note", "copy_of", "client_addr")

    def __init__(self, id, src, dst, data, sent_tick, release_tick, sent_time, note="", copy_of=None):
        self.id = id
        self.src = src
        self.dst = dst
        self.data = data
        self.sent_tick = sent_tick
        self.release_tick = release_tick
        self.sent_time = sent_time
        self.note = note
        self.copy_of = copy_of

    def __repr__(self):
        return "<Dgram #%d %s->%s %dB t%d>" % (self.id, self.src, self.dst, len(self.data), self.sent_tick)


class Monitor(object):
    """base class: override what you need. ``violations`` collects (oracle, sig, message)"""

    def __init__(self):
        self.violations = []

    def flag(self, oracle, sig, message):
        self.violations.append((oracle, sig, message))

    def on_send(self, w, d):
        pass

    def on_deliver(self, w, d):
        pass

    def on_recv_result(self, w, conn, hdr, datagram, result, before):
        pass

    def before_recv(self, w, conn, hdr, datagram):
        return None

    def on_app_message(self, w, end, seq, payload):
        pass

    def on_callback(self, w, end, tag, success):
        pass

    def on_handler_event(self, w, name, client, args):
        pass

    def on_tick_end(self, w):
        pass

    def on_exception(self, w, where, exc):
        pass

    def state(self):
        """monitor state that influences future verdicts (part of the state hash)"""
        return ()


class RecHandler(EventHandler):
    def __init__(self, world):
        self.w = world
        self.raise_in = set()  # event names in which to raise once
        self.raise_always = set()  # event names in which to raise every time

    def _ev(self, name, client=None, *args):
        w = self.w
        w.handler_log.append((name, w.serial(client) if client is not None else None, threading.get_ident()) + tuple(args))
        for m in w.monitors:
            m.on_handler_event(w, name, client, args)
        hook = w.handler_hooks.get(name)
        if hook:
            hook(w, client, *args)
        if name in self.raise_in:
            self.raise_in.discard(name)
            raise RuntimeError("handler raises in %s (injected)" % name)
        if name in self.raise_always:
            raise RuntimeError("handler raises in every %s (injected)" % name)

    def starting(self):
        self._ev("starting")

    def shutdown(self):
        self._ev("shutdown")

    def connect(self, client):
        self.w.register_server_client(client)
        self._ev("connect", client)

    def disconnect(self, client):
        self._ev("disconnect", client)

    def handle_message(self, client, seqnum, msg=b""):
        for m in self.w.monitors:
            m.on_app_message(self.w, ("s", self.w.serial(client)), seqnum, msg)
        self._ev("handle_message", client, int(seqnum), len(msg))

    def update(self, delta_t):
        self.w.baton.pause("update")
        self._ev("update")


class Transport(object):
    def __init__(self, world):
        self.w = world

    def write(self, datagram, addr):
        self.w.on_server_write(datagram, addr)


class ClientEnd(object):
    def __init__(self, world, index, addr):
        self.w = world
        self.index = index
        self.addr = addr  # the address the server sees for this client
        self.name = "c%d" % index
        self.client = None
        self.sock = None
        self.delivered = []  # (seq, payload) surfaced by getMessages
        self.connect_cb = []
        self.update_errors = []

    @property
    def conn(self):
        return self.client.conn if self.client else None


class World(object):
    def __init__(self, dt=1.0 / 64, mtu=1500, n_clients=1, order="cs", latency=1, chooser=None,
                 monitors=(), server_cfg=None, client_cfg=None, key_offset=0, fates=(), fate_filter=None,
                 pinned=True, start_time=1000.0, client_addrs=None, rnd_seed=0, token_source=None,
                 connect_callback=False, autoconnect=True, server_send="twisted", root_index=None, hash_states=False, swap_handler=False,
                 on_connected=None):
        self.dt = dt
        self.on_connected = on_connected   # fn(world, client_end, ok) run INSIDE the client's connect callback
        self.hash_states = hash_states
        self.mtu = mtu
        self.order = order
        self.latency = latency
        self.chooser = chooser or DefaultChooser()
        self.monitors = list(monitors)
        self.fates = list(fates)
        self.fate_filter = fate_filter
        self.tickno = 0
        self.net = []
        self.all_sent = []
        self.blackout = {}  # direction ('c2s' / 's2c') -> tick until which datagrams are lost
        self.blackhole = {}  # direction -> (tick until which, size above which) datagrams are lost
        self.drop_rule = None   # fn(world, dgram) -> True: the datagram is lost (content-selective loss, decided by the harness)
        self.cb_raise = {}   # send-callback tag -> "always" | True | False: the user's callback raises when told that value
        self.cb_action = {}  # send-callback tag -> f(success): what the application does from INSIDE that callback (sends, closes ...)
        self.handler_log = []
        self.handler_hooks = {}
        self.callback_log = []
        self.exceptions = []
        self.sockets = []
        self._serials = {}
        self._serial_objs = []
        self.server_clients = []
        self.server_addr = SERVER_ADDR
        self.closed = False
        self.bytes_in = {}
        self.bytes_out = {}
        self.fault_free = True

        self.vt = seams.VirtualTime(start_time)
        self.rnd = seams.CounterRandom(rnd_seed)
        self.keypool = seams.KeyPool(key_offset)
        self.patches = seams.install(self.vt, self.rnd, self.keypool, owner=self)
        if token_source is not None:
            self.patches.set(m_context, "os", seams.OsProxy(token_source))
        self._wrap_recv()
        self._old_mtu = Packet.MTU
        if mtu != Packet.MTU:
            Packet.setMTU(mtu)

        # ---- server
        # root_index: fix the server's long-term key independently of the ephemeral key pool position
        self.root_key = self.keypool.new() if root_index is None else seams.fixture_keys()[root_index]
        self.handler = RecHandler(self)
        self.decoy_log = []
        if swap_handler:
            # the application configures the context with one handler, builds the server object, and installs ANOTHER
            # handler before it starts the server: the first one must never hear of anything
            world__ = self

            class _Decoy(EventHandler):
                def __getattribute__(self, name):
                    if name in ("starting", "shutdown", "connect", "disconnect", "handle_message", "update"):
                        def rec(*a, **k):
                            world__.decoy_log.append((name, world__.tickno))
                            if name == "update":
                                world__.baton.pause("update")    # keep the world ticking whoever gets the updates
                        return rec
                    return object.__getattribute__(self, name)
            self.ctxt = ServerContext(_Decoy(), self.root_key)
        else:
            self.ctxt = ServerContext(self.handler, self.root_key)
        for k, v in (server_cfg or {}).items():
            getattr(self.ctxt, k)(v)
        self.ctxt.setInterval(dt)
        self.baton = seams.Baton()
        self.server = TwistedServer(self.ctxt, SERVER_ADDR, install_signals=False)
        if swap_handler:
            self.ctxt.handler = self.handler
        self.server.transport = Transport(self)
        th = self.server.thread
        if server_send == "thread":
            # the plain UDP server's send path: UdpServerThread.send over a socket object
            del th.send  # drop TwistedServer's instance override -> class method
            world_ = self

            class _Sock(object):
                def sendto(self, datagram, addr):
                    world_.on_server_write(datagram, addr)
            th.sock = _Sock()
        th.lk_queue = seams.FakeLock()
        th.cv_queue = seams.FakeCondition(self.baton)
        real_run = th.run
        baton = self.baton
        world = self

        def guarded_run():
            baton.to_server.acquire()
            try:
                real_run()
            except BaseException as e:  # the server thread died
                baton.error = e
                world.exceptions.append(("server-thread", repr(e)))
            finally:
                baton.dead = True
                baton.to_harness.release()
        th.run = guarded_run
        th.start()
        self.baton.resume()  # runs starting() and the first iteration up to its first pause

        # ---- clients
        self.clients = []
        self.client_cfg = client_cfg or {}
        self.pinned = pinned
        self.connect_callback = connect_callback
        addrs = client_addrs or [("10.0.1.%d" % (i + 1), 5000 + i) for i in range(n_clients)]
        for i in range(n_clients):
            self.clients.append(ClientEnd(self, i, addrs[i]))
        if autoconnect:
            for ce in self.clients:
                self.client_connect(ce.index)

    # ------------------------------------------------------------------
    def _wrap_recv(self):
        orig = ConnectionBase.__dict__["_recv_datagram"]
        world = self

        def _recv_datagram(conn, hdr, datagram):
            befores = [m.before_recv(world, conn, hdr, datagram) for m in world.monitors]
            result = orig(conn, hdr, datagram)
            for m, b in zip(world.monitors, befores):
                m.on_recv_result(world, conn, hdr, datagram, result, b)
            return result
        self.patches.set(ConnectionBase, "_recv_datagram", _recv_datagram)

    def serial(self, obj):
        """stable small integer naming an object (strong reference kept)"""
        k = id(obj)
        if k not in self._serials or self._serial_objs[self._serials[k]] is not obj:
            self._serials[k] = len(self._serial_objs)
            self._serial_objs.append(obj)
        return self._serials[k]

    def register_server_client(self, client):
        if client not in self.server_clients:
            self.server_clients.append(client)

    # ------------------------------------------------------------------ clients
    def client_connect(self, i, before_connect=None):
        ce = self.clients[i]
        pub = self.root_key.getPublicKey() if self.pinned is True else (self.pinned or None)
        ce.client = UdpClient(pub)
        for k, v in self.client_cfg.items():
            getattr(ce.client, k)(v)
        if before_connect:
            before_connect(ce.client)
        cb = None
        if self.connect_callback or self.on_connected:
            def cb(ok, ce=ce):
                ce.connect_cb.append((self.vt.now, ok))
                if self.on_connected:
                    self.on_connected(self, ce, ok)
        n0 = len(self.sockets)
        ce.client.connect(SERVER_ADDR, cb)
        ce.sock = self.sockets[n0]
        ce.sock.end = ce
        return ce

    def client_reconnect(self, i):
        """connect() again on the SAME UdpClient object (the caller has disconnected it)"""
        ce = self.clients[i]
        cb = None
        if self.connect_callback:
            def cb(ok, ce=ce):
                ce.connect_cb.append((self.vt.now, ok))
        n0 = len(self.sockets)
        ce.client.connect(SERVER_ADDR, cb)
        ce.sock = self.sockets[n0]
        ce.sock.end = ce
        return ce

    def on_client_sendto(self, sock, datagram, addr):
        ce = sock.end
        self._emit(ce.name, "s", bytes(datagram), ce.addr)

    def on_server_write(self, datagram, addr):
        self._emit("s", addr, bytes(datagram), addr)

    def end_for_addr(self, addr):
        for ce in self.clients:
            if ce.addr == addr:
                return ce
        return None

    # ------------------------------------------------------------------ network
    def _emit(self, src, dst, data, client_addr):
        d = Dgram(len(self.all_sent), src, dst, data, self.tickno, self.tickno + self.latency, self.vt.now)
        d.client_addr = client_addr
        self.all_sent.append(d)
        if src == "s":
            self.bytes_out[dst] = self.bytes_out.get(dst, 0) + len(data)
        for m in self.monitors:
            m.on_send(self, d)
        direction = "s2c" if src == "s" else "c2s"
        if self.blackout.get(direction, -1) > self.tickno:
            d.note = "lost(blackout)"
            return
        if self.drop_rule is not None and self.drop_rule(self, d):
            d.note = "lost(rule)"
            self.fault_free = False
            return
        hole = self.blackhole.get(direction)
        if hole is not None and hole[0] > self.tickno and len(data) > hole[1]:
            d.note = "lost(size black hole)"
            return
        fates_here = [f for f in self.fates if f != "sendfail" or src != "s"]    # only the client's own socket can refuse (the Twisted transport never raises)
        if fates_here and (self.fate_filter is None or self.fate_filter(self, d)):
            opts = [("deliver #%d" % d.id, 0)] + [("%s #%d" % (f, d.id), 1) for f in fates_here]
            c = self.chooser.choose("fate", opts, key=((lambda: self.canon() + (d.data, d.dst if isinstance(d.dst, str) else "c")) if self.hash_states else None))
            if c:
                self.fault_free = False
                f = fates_here[c - 1]
                d.note = f
                if f == "sendfail":
                    # the operating system refuses this one send (socket buffer full): sendto raises inside UdpClient.update()
                    d.note = "lost(send refused by the socket)"
                    import errno
                    raise BlockingIOError(errno.EAGAIN, "Resource temporarily unavailable (injected by the harness)")
                if f == "drop":
                    return
                if f == "dup":
                    self.net.append(d)
                    d2 = Dgram(d.id, src, dst, data, d.sent_tick, d.release_tick, d.sent_time, "dup-copy", copy_of=d.id)
                    d2.client_addr = client_addr
                    self.net.append(d2)
                    return
                if f.startswith("dupdelay"):
                    # the datagram arrives on time and a second copy N ticks later
                    self.net.append(d)
                    d2 = Dgram(d.id, src, dst, data, d.sent_tick, d.release_tick + int(f[8:]), d.sent_time, "dup-copy(late)", copy_of=d.id)
                    d2.client_addr = client_addr
                    self.net.append(d2)
                    return
                if f.startswith("delay"):
                    d.release_tick += int(f[5:])
                    self.net.append(d)
                    return
                raise ValueError(f)
        self.net.append(d)

    def inject(self, dst, data, client_addr=None, note="inject", src_addr=None):
        """attacker: put a datagram into the network, delivered at the destination's next turn.
        dst 's' with client_addr = claimed source address; dst = client name 'c0'"""
        d = Dgram(-1, "x", dst, bytes(data), self.tickno, self.tickno, self.vt.now, note)
        d.client_addr = client_addr
        self.net.append(d)
        self.fault_free = False
        return d

    def _deliver_due(self, dst_kind):
        """deliver datagrams whose time has come to the server ('s') or to the clients ('c')"""
        keep = []
        due = []
        for d in self.net:
            is_server = d.dst == "s"
            if (dst_kind == "s") == is_server and d.release_tick <= self.tickno:
                due.append(d)
            else:
                keep.append(d)
        self.net = keep
        due.sort(key=lambda d: d.release_tick)  # stable: FIFO within equal release
        for d in due:
            for m in self.monitors:
                m.on_deliver(self, d)
            if d.dst == "s":
                self.bytes_in[d.client_addr] = self.bytes_in.get(d.client_addr, 0) + len(d.data)
                self.server.datagramReceived(d.data, d.client_addr)
            else:
                ce = self.end_for_addr(d.dst) if not isinstance(d.dst, str) else self.clients[int(d.dst[1:])]
                if ce is not None and ce.sock is not None and not ce.sock.closed:
                    ce.sock.inbox.append(d.data)

    # ------------------------------------------------------------------ time
    def _client_turn(self):
        self._deliver_due("c")
        for ce in self.clients:
            if ce.client is None or ce.client.conn is None:
                continue
            try:
                ce.client.update()
            except BlockingIOError as e:
                if "injected by the harness" not in str(e):
                    raise
                ce.update_errors.append((self.tickno, repr(e)))      # the application sees the error of its own socket; nothing else
            except Exception as e:
                ce.update_errors.append((self.tickno, repr(e)))
                self.exceptions.append(("client.update", repr(e)))
                for m in self.monitors:
                    m.on_exception(self, "client.update", e)
            # how the application reads: every frame (default), only when hasMessages() says so (the idiom of the
            # library's own tests), one getMessage() at a time, or only every third frame
            mode = getattr(self, "client_read", "poll")
            if mode == "guarded":
                batch = ce.client.getMessages() if ce.client.hasMessages() else []
            elif mode == "single":
                batch = []
                while ce.client.hasMessages():
                    batch.append(ce.client.getMessage())
            elif mode == "lazy3":
                batch = ce.client.getMessages() if self.tickno % 3 == 0 else []
            else:
                batch = ce.client.getMessages()
            for seq, payload in list(batch):
                ce.delivered.append((int(seq), payload))
                for m in self.monitors:
                    m.on_app_message(self, ("c", ce.index), seq, payload)

    def _server_turn(self):
        self._deliver_due("s")
        if not self.baton.dead:
            self.baton.resume()

    def tick(self, dt=None):
        self.tickno += 1
        self.vt.now += (self.dt if dt is None else dt)
        if self.order == "cs":
            self._client_turn()
            self._server_turn()
        else:
            self._server_turn()
            self._client_turn()
        for m in self.monitors:
            m.on_tick_end(self)

    def run(self, n, until=None):
        for _ in range(n):
            self.tick()
            if until is not None and until(self):
                return True
        return False

    def run_until_connected(self, limit=None):
        if limit is None:
            limit = 40 + 4 * self.latency   # three one-way trips
        def ok(w):
            return all(ce.client.connected() for ce in w.clients) and \
                all(ce.addr in w.ctxt.connections for ce in w.clients)
        if not self.run(limit, ok):
            raise RuntimeError("HARNESS-ERROR: honest handshake did not complete in %d ticks" % limit)

    # ------------------------------------------------------------------ app actions
    def server_conn(self, i=0):
        return self.ctxt.connections.get(self.clients[i].addr)

    def make_cb(self, end, tag):
        def cb(success):
            self.callback_log.append((end, tag, bool(success), self.vt.now))
            for m in self.monitors:
                m.on_callback(self, end, tag, bool(success))
            act = self.cb_action.get(tag)
            if act is not None:
                act(bool(success))
            mode = self.cb_raise.get(tag, "no")
            if mode == "always" or mode == bool(success):
                raise RuntimeError("user callback raises (injected by the harness)")
        cb.tag = tag
        cb.end = end
        return cb

    def preset_near_wrap(self, pkt_seq=65530, msg_seq=65500):
        """put both ends of client 0's session a few numbers below the 16-bit wrap of the datagram AND the message
        counters, consistently (as if 65530 datagrams had been exchanged).  65530 datagrams take >= 18 minutes at the
        protocol's rate cap: the clock and every stored time stamp move accordingly.  Call when nothing is pending."""
        from mpgameserver.connection import SeqNum
        c, s = self.clients[0].conn, self.server_conn(0)
        # datagrams still in flight carry the OLD small numbers: after the preset they would look 'newer' than
        # everything and pull the windows back.  They are lost (a keep-alive at most).
        self.net = []
        for sock in self.sockets:
            if getattr(sock, "inbox", None):
                del sock.inbox[:]
        shift = 65530 / 60.0
        self.vt.now += shift
        for x in (c, s):
            # every stored absolute time, whatever the attribute is called
            for k, v in list(vars(x).items()):
                if isinstance(v, float) and not isinstance(v, bool) and v > 500:
                    setattr(x, k, v + shift)
        for a, b in ((c, s), (s, c)):
            a.seq_sending = SeqNum(pkt_seq)
            a.pending_acks = {}
            a.pending_callbacks = {}
            a.pending_retry = {}
            # the datagrams whose bookkeeping is dropped here count as acked (keeps assembled = acked + timeouts + pending)
            if hasattr(a.stats, "assembled"):
                a.stats.acked = a.stats.assembled - a.stats.timeouts
            b.bitfield_pkt.current_seqnum = SeqNum(pkt_seq)
            b.bitfield_pkt.bits = 0xFFFFFFFF
            if msg_seq:
                a.seq_message = SeqNum(msg_seq)
                a.seq_fragment = SeqNum(65534)
                a.pending_retry_msg = {}
                b.bitfield_msg.current_seqnum = SeqNum(msg_seq)
                b.bitfield_msg.bits = (1 << b.bitfield_msg.nbits) - 1

    def start_blackhole(self, direction, ticks, larger_than):
        """selective loss: for ``ticks`` ticks every datagram longer than ``larger_than`` bytes is lost in that direction
        (an MTU black hole); smaller ones - keep-alives, acks, small messages - pass"""
        self.fault_free = False
        for d in (["c2s", "s2c"] if direction == "both" else [direction]):
            self.blackhole[d] = (self.tickno + ticks, larger_than)

    def start_blackout(self, direction, ticks):
        self.fault_free = False
        for d in (["c2s", "s2c"] if direction == "both" else [direction]):
            self.blackout[d] = self.tickno + ticks

    # ------------------------------------------------------------------ state hash
    def canon(self, abstime=False):
        parts = [self.tickno if abstime else None]
        now = self.vt.now
        conns = []
        for ce in self.clients:
            conns.append(ce.conn)
        for ce in self.clients:
            conns.append(self.ctxt.connections.get(ce.addr) or self.ctxt.temp_connections.get(ce.addr))
        for c in conns:
            parts.append(canon_conn(c, now))
        parts.append(tuple(sorted((d.dst if isinstance(d.dst, str) else "c", d.release_tick - self.tickno, d.data) for d in self.net)))
        parts.append(tuple(sorted((k, v - self.tickno) for k, v in self.blackout.items() if v > self.tickno)))
        parts.append(tuple(tuple(s.inbox) for s in self.sockets))
        parts.append(tuple(m.state() for m in self.monitors))
        return tuple(parts)

    # ------------------------------------------------------------------ teardown
    def shutdown_server(self, max_steps=5):
        """ctxt.shutdown() + let the loop run to its end"""
        self.ctxt.shutdown()
        n = 0
        while not self.baton.dead and n < max_steps:
            self.baton.resume()
            n += 1
        return self.baton.dead

    def close(self):
        if self.closed:
            return
        self.closed = True
        saved = self.monitors
        self.monitors = []  # teardown is not part of the explored behaviour
        self.handler_hooks = {}
        try:
            self.ctxt._active = False
            n = 0
            while not self.baton.dead and not self.baton.stalled and n < 50:
                try:
                    self.baton.resume()
                except seams.ServerStall:
                    break
                n += 1
            if self.baton.dead:
                self.server.thread.join(5)
            # a stalled server thread is abandoned (daemon thread); the stall itself was reported by the explorer
        finally:
            self.monitors = saved
            if Packet.MTU != self._old_mtu:
                Packet.setMTU(self._old_mtu)
            self.patches.undo()


def open_datagram(w, d):
    """messages of an emitted datagram, read with the reference primitives: [(msg seq, type value, payload)] or None.
    Works for datagrams of client 0's session (either direction)."""
    import struct
    from cryptography.hazmat.primitives.ciphers.aead import AESGCM
    try:
        conn = w.server_conn(0) if d.src == "s" else w.clients[0].conn
        key = conn.session_key_bytes
        data = d.data
        typ, length, count = data[12], struct.unpack(">H", data[13:15])[0], data[15]
        if key is None or typ in (1, 2):
            return None
        body = AESGCM(key).decrypt(data[:12], data[20:], data[:20])
        if count == 0:
            return []
        if count == 1:
            return [(struct.unpack(">H", body[:2])[0], typ, body[2:])]
        out = []
        pos = 0
        for _ in range(count):
            ln, seq, t = struct.unpack(">HHB", body[pos:pos + 5])
            out.append((seq, t, body[pos + 5:pos + 5 + ln]))
            pos += 5 + ln
        return out
    except Exception:
        return None


def age(t, now):
    if t is None or now is None:
        return t
    if t <= 0:
        return ("abs", t)
    return round(now - t, 9)


def canon_bitfield(b):
    return (int(b.current_seqnum), b.bits)


def conn_fields(c, now=None):
    """every field of a connection that protocol logic reads, by name.
    now=None: absolute times (snapshot); else ages relative to now (state hash)"""
    return {
        "status": c.status.value,
        "key": c.session_key_bytes,
        "token": getattr(c, "token", None),
        "seq_sending": int(c.seq_sending), "seq_message": int(c.seq_message), "seq_fragment": int(c.seq_fragment),
        "bitfield_pkt": canon_bitfield(c.bitfield_pkt), "bitfield_msg": canon_bitfield(c.bitfield_msg),
        "outgoing": tuple((int(m.seq), m.type.value, m.payload, getattr(m.retry, "value", m.retry), m.callback is not None) for m in c.outgoing_messages),
        "pending_acks": tuple(sorted((int(k), age(v, now)) for k, v in c.pending_acks.items())),
        "pending_callbacks": tuple(sorted((int(k), len(v)) for k, v in c.pending_callbacks.items())),
        "pending_retry": tuple(sorted((int(k), tuple(int(x) for x in v)) for k, v in c.pending_retry.items())),
        "pending_retry_msg": tuple(sorted((int(k), age(m.assembled_time, now), m.payload) for k, m in c.pending_retry_msg.items())),
        "pending_fragments": tuple(sorted((int(k), tuple(s.acks)) for k, s in c.pending_fragments.items())),
        "received_fragments": tuple(sorted((int(k), age(r.ctime, now), tuple(f is not None for f in r.fragments)) for k, r in c.received_fragments.items())),
        "incoming": tuple((int(s), p) for s, p in c.incoming_messages),
        "last_recv_time": age(getattr(c, "last_recv_time", None), now),
        "last_send_time": age(getattr(c, "last_send_time", None), now),
        "time_client_hello_sent": age(getattr(c, "time_client_hello_sent", None), now),
        # every other scalar attribute, whatever it is called (the keep-alive timer, settings, anything a change adds):
        # times (floats in the harness's clock range) as ages when a reference time is given
        "other_scalars": other_scalars(c, now),
        "stats.received": c.stats.received, "stats.acked": c.stats.acked, "stats.timeouts": c.stats.timeouts,
        "stats.dropped": c.stats.dropped,
    }


_LISTED = {"status", "session_key_bytes", "token", "seq_sending", "seq_message", "seq_fragment", "last_recv_time", "last_send_time",
           "time_client_hello_sent", "latency", "session_salt", "last_latency_update_time"}


def other_scalars(c, now):
    out = []
    for k, v in sorted(vars(c).items()):
        if k in _LISTED or k.startswith("__"):
            continue
        if isinstance(v, bool) or v is None or isinstance(v, (str, bytes)):
            out.append((k, v))
        elif isinstance(v, int):
            out.append((k, int(v)))
        elif isinstance(v, float):
            out.append((k, age(v, now) if v > 500 else v))
    return tuple(out)


def canon_conn(c, now):
    if c is None:
        return None
    return tuple(conn_fields(c, now).values())


def snapshot(c):
    """absolute-time snapshot for before/after comparisons; stats.dropped excluded (returned separately)"""
    f = conn_fields(c, None)
    f["latency"] = c.latency
    f["session_salt"] = getattr(c, "session_salt", None)
    dropped = f.pop("stats.dropped")
    return f, dropped


def diff_snap(a, b):
    return sorted(k for k in a if a[k] != b[k])
