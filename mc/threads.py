"""Preemption-bounded exploration of two real threads inside library code (CHESS style).

Both bodies run as real Python threads, but only one of them runs at any time: a trace function installed in each
thread stops it before every line (or every bytecode) of the files of interest and asks the explorer's chooser whether
the OTHER thread runs next.  Switching away from a thread that could go on is a preemption (cost 1); the explorer
enumerates every schedule with at most ``bound`` preemptions through ordinary prefix replay (mc.explore).

Only code in ``files`` gets scheduling points; everything else (the interpreter, the harness, the standard library)
runs atomically inside the step that called it.  The library paths driven here take no locks, so a blocked thread is
always blocked by the scheduler, never by the code under test.
"""
import sys
import threading


class _Abort(BaseException):
    pass


class TwoThreads(object):
    def __init__(self, ch, files, opcodes=False, max_points=20000):
        self.ch = ch
        self.files = tuple(files)
        self.opcodes = opcodes
        self.sems = [threading.Semaphore(0), threading.Semaphore(0)]
        self.done = [False, False]
        self.errors = [None, None]
        self.current = 0
        self.points = 0
        self.max_points = max_points
        self.lock_broken = False

    # -- tracing
    def _tracer(self, tid):
        files = self.files
        me = self

        def local(frame, event, arg):
            if event == ("opcode" if me.opcodes else "line"):
                me._point(tid, frame)
            return local

        def glob(frame, event, arg):
            if event == "call" and frame.f_code.co_filename.endswith(files):
                if me.opcodes:
                    frame.f_trace_opcodes = True
                return local
            return None
        return glob

    def _point(self, tid, frame):
        other = 1 - tid
        self.points += 1
        if self.points > self.max_points:
            raise _Abort()
        if self.done[other]:
            return
        where = "%s:%d" % (frame.f_code.co_name, frame.f_lineno)
        c = self.ch.choose("sched", [("T%d goes on at %s" % (tid, where), 0), ("preempt T%d at %s" % (tid, where), 1)])
        if c:
            self.current = other
            self.sems[other].release()
            self.sems[tid].acquire()

    # -- running
    def run(self, body0, body1, first=0, timeout=60.0):
        bodies = [body0, body1]

        def target(tid):
            self.sems[tid].acquire()
            sys.settrace(self._tracer(tid))
            try:
                bodies[tid]()
            except _Abort:
                self.errors[tid] = RuntimeError("too many scheduling points")
            except BaseException as e:  # noqa
                self.errors[tid] = e
            finally:
                sys.settrace(None)
                self.done[tid] = True
                other = 1 - tid
                if not self.done[other]:
                    self.current = other
                    self.sems[other].release()
                else:
                    self.finished.set()
        self.finished = threading.Event()
        ths = [threading.Thread(target=target, args=(i,), daemon=True) for i in (0, 1)]
        for t in ths:
            t.start()
        self.current = first
        self.sems[first].release()
        if not self.finished.wait(timeout):
            self.lock_broken = True
            raise RuntimeError("thread schedule did not finish within %.0f s (deadlock in the harness?)" % timeout)
        for t in ths:
            t.join(5)
        return self.errors
