"""Shared plumbing: repo import, report/violation objects, known findings,
evidence writing, process pool.

Everything here is independent of any property.  A check module in
``checks/cNN.py`` exposes

    PROPERTY = "C17"
    LEVEL    = "exploration" | "model_checking" | ...
    def run(tier, seed) -> Report
    def replay(witness) -> list[Violation]      # plain re-execution, no explorer
"""
import os
import sys
import json
import re
import time
import hashlib
import multiprocessing

VERIF_DIR = os.path.dirname(os.path.dirname(os.path.abspath(__file__)))
REPO_DIR = os.path.abspath(os.environ.get("VERIF_REPO", "/repo"))


def import_repo():
    """make ``import mpgameserver`` resolve to the working tree under test.

    The package is an editable install of /repo; VERIF_REPO may point at a
    scratch worktree instead (used by the seeded-change driver).  Either way
    the resolved location is asserted, so a stale import can never be checked
    by accident."""
    if REPO_DIR not in sys.path:
        sys.path.insert(0, REPO_DIR)
    import logging
    logging.disable(logging.CRITICAL)
    import mpgameserver  # noqa
    got = os.path.dirname(os.path.dirname(os.path.abspath(mpgameserver.__file__)))
    if os.path.realpath(got) != os.path.realpath(REPO_DIR):
        raise SystemExit("HARNESS-ERROR: mpgameserver imported from %s, expected %s" % (got, REPO_DIR))
    return mpgameserver


class Violation(object):
    """one property violation.

    oracle  : short id of the oracle clause that failed
    sig     : specific, stable description of *what* fails (input class, call
              site or history shape) - known findings are matched on it
    witness : json-able data from which ``replay`` re-executes the failure
    message : human readable
    """

    def __init__(self, oracle, sig, witness, message=""):
        self.oracle = oracle
        self.sig = sig
        self.witness = witness
        self.message = message

    def to_json(self):
        return {"oracle": self.oracle, "sig": self.sig,
                "witness": self.witness, "message": self.message}

    @staticmethod
    def from_json(d):
        return Violation(d["oracle"], d["sig"], d["witness"], d.get("message", ""))

    def __repr__(self):
        return "<Violation %s %s>" % (self.oracle, self.sig)


class Report(object):
    def __init__(self):
        self.coverage = {}
        self.assumptions = []
        self.violations = []
        self.parts = []  # per sub-check coverage rows (go into coverage['parts'])

    # ---- helpers used by the checks -------------------------------------
    def add_violation(self, v):
        self.violations.append(v)

    def merge_part(self, name, part):
        """part: dict with counts; summed into the totals, kept per part too"""
        row = dict(part)
        row["part"] = name
        self.parts.append(row)


class Counter(dict):
    def inc(self, k, n=1):
        self[k] = self.get(k, 0) + n


# ---------------------------------------------------------------------------
# known findings

def load_known_findings():
    path = os.path.join(VERIF_DIR, "known_findings.json")
    if not os.path.exists(path):
        return []
    with open(path) as f:
        data = json.load(f)
    return data.get("findings", [])


def match_known(prop, v, findings):
    for f in findings:
        if f.get("status") != "known":
            continue  # "fixed" entries suppress nothing
        if f.get("property") != prop:
            continue
        if f.get("oracle") and f["oracle"] != v.oracle:
            continue
        if re.fullmatch(f["sig_pattern"], v.sig):
            return f
    return None


# ---------------------------------------------------------------------------
# parallel map with long lived workers

_WORKER_FN = None


def _jobs_limited():
    try:
        return int(os.environ.get("VERIF_JOBS", "16")) < 16
    except ValueError:
        return False


def _pin_worker():
    """pin this worker process (and the server threads it will create) to ONE
    core: the harness/server-thread baton hand-off is 5x slower and very
    erratic when the two threads of a worker are scheduled on different
    cores of this VM."""
    try:
        cpus = sorted(os.sched_getaffinity(0))
        ident = multiprocessing.current_process()._identity
        idx = (ident[0] - 1) if ident else 0
        # several checks running side by side (seed sweeps, mutation runs) should not all pile up on the first cores
        try:
            base = int(os.environ["VERIF_CPU_BASE"])
        except (KeyError, ValueError):
            base = (os.getppid() * 5) % len(cpus) if _jobs_limited() else 0
        os.sched_setaffinity(0, {cpus[(base + idx) % len(cpus)]})
    except Exception:
        pass


def _pool_init(fn_module, fn_name, initargs, pin=True):
    global _WORKER_FN
    import importlib
    if os.environ.get("VERIF_FAULTHANDLER"):
        import faulthandler
        faulthandler.dump_traceback_later(int(os.environ["VERIF_FAULTHANDLER"]), repeat=True)
    if pin:
        _pin_worker()
        try:
            # a runaway allocation in the code under test must surface as MemoryError in the
            # worker (which the oracles see), not as an OOM kill of the whole check
            import resource
            lim = int(os.environ.get("VERIF_WORKER_MEM_GB", "6")) << 30
            resource.setrlimit(resource.RLIMIT_AS, (lim, lim))
        except Exception:
            pass
    mod = importlib.import_module(fn_module)
    init = getattr(mod, fn_name + "_init", None)
    if init is not None:
        init(*initargs)
    _WORKER_FN = getattr(mod, fn_name)


JOB_CRASHES = []      # filled (in the parent) in tolerant mode: short descriptions of work items that crashed


class _Crash(object):
    def __init__(self, text):
        self.text = text


def _pool_call(arg):
    if not os.environ.get("VERIF_TOLERATE_CRASHES"):
        return _WORKER_FN(arg)
    try:
        return _WORKER_FN(arg)
    except BaseException as e:  # noqa
        import traceback as _tb
        return _Crash("%s: %s | item %r | %s" % (type(e).__name__, str(e)[:200], arg if len(repr(arg)) < 200 else repr(arg)[:200],
                                             " <- ".join("%s:%d" % (f.filename.split("/")[-1], f.lineno) for f in _tb.extract_tb(e.__traceback__)[-3:])))


def _drop_crashes(results):
    out = []
    for r in results:
        if isinstance(r, _Crash):
            JOB_CRASHES.append(r.text)
        else:
            out.append(r)
    return out


def ncpu():
    try:
        n = len(os.sched_getaffinity(0))
    except Exception:
        n = multiprocessing.cpu_count()
    return max(1, min(16, int(os.environ.get("VERIF_JOBS", n))))


def _next_with_timeout(it, limit):
    """next() of an executor.map iterator, raising concurrent.futures.TimeoutError if it takes too long"""
    import threading
    import concurrent.futures as cf
    box = {}

    def run():
        try:
            box["v"] = next(it)
        except StopIteration:
            box["stop"] = True
        except BaseException as e:  # propagate worker exceptions
            box["e"] = e
    t = threading.Thread(target=run, daemon=True)
    t.start()
    t.join(limit)
    if t.is_alive():
        raise cf.TimeoutError()
    if "e" in box:
        raise box["e"]
    if "stop" in box:
        raise StopIteration
    return box["v"]


def pmap(fn_module, fn_name, items, initargs=(), jobs=None, chunksize=1, force_pool=False):
    """map ``module.fn`` over items in a process pool (fork, long lived
    workers).  ``module.fn_init(*initargs)`` runs once per worker if it
    exists.  Results come back in input order."""
    items = list(items)
    jobs = jobs or ncpu()
    if jobs <= 1 and not force_pool:
        # explicit single-process mode (VERIF_JOBS=1, debugging).  A single ITEM is no reason to run library code inside the
        # parent: worlds leave threads and patched modules behind, and every later pool is forked from this process
        _pool_init(fn_module, fn_name, initargs, pin=False)
        return _drop_crashes([_pool_call(a) for a in items])
    import concurrent.futures as cf
    ctx = multiprocessing.get_context("fork")
    # ProcessPoolExecutor (unlike multiprocessing.Pool) notices a worker that died
    with cf.ProcessPoolExecutor(max(1, min(jobs, len(items))), mp_context=ctx, initializer=_pool_init,
                                initargs=(fn_module, fn_name, initargs)) as pool:
        try:
            # per-result watchdog: a lost work item must end the check with a harness error, never hang it
            limit = float(os.environ.get("VERIF_ITEM_TIMEOUT", "1500"))
            out = []
            it = pool.map(_pool_call, items, chunksize=chunksize, timeout=None)
            futs = None
            try:
                while True:
                    t0 = time.time()
                    out.append(_next_with_timeout(it, limit))
            except StopIteration:
                return _drop_crashes(out)
        except cf.TimeoutError:
            for p in list(getattr(pool, "_processes", {}).values()):
                try:
                    p.kill()
                except Exception:
                    pass
            raise RuntimeError("HARNESS-ERROR: no result from the worker pool within %.0f s while running %s.%s" % (limit, fn_module, fn_name))
        except cf.process.BrokenProcessPool:
            raise RuntimeError("HARNESS-ERROR: a worker process died (killed / crashed interpreter) while running %s.%s" % (fn_module, fn_name))


# ---------------------------------------------------------------------------
# misc

def stable_hash(obj):
    return hashlib.sha1(repr(obj).encode("utf-8", "backslashreplace")).hexdigest()[:16]


def jsonable(x, depth=0):
    """best effort conversion of witnesses / samples to json-able data"""
    if depth > 12:
        return repr(x)
    if isinstance(x, (bytes, bytearray)):
        b = bytes(x)
        if len(b) > 96:
            return {"hex_prefix": b[:48].hex(), "len": len(b), "sha1": hashlib.sha1(b).hexdigest()[:12]}
        return {"hex": b.hex()}
    if isinstance(x, (str, int, bool)) or x is None:
        return x
    if isinstance(x, float):
        if x != x or x in (float("inf"), float("-inf")):
            return repr(x)
        return x
    if isinstance(x, dict):
        return {str(k): jsonable(v, depth + 1) for k, v in x.items()}
    if isinstance(x, (list, tuple)):
        return [jsonable(v, depth + 1) for v in x]
    if isinstance(x, (set, frozenset)):
        return sorted((jsonable(v, depth + 1) for v in x), key=repr)
    return repr(x)


class Stopwatch(object):
    def __init__(self):
        self.t0 = time.time()

    def elapsed(self):
        return time.time() - self.t0


def safe_samples(fn):
    """evidence samples are illustrations computed by calling the library again: a crash there (only possible when the
    code under test misbehaves, which the verdict already reports) must not replace the verdict by a harness error"""
    try:
        return fn()
    except BaseException as e:  # noqa
        return [{"samples_unavailable": "%s: %s" % (type(e).__name__, str(e)[:120])}]
