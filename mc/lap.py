"""One long execution across more than a full lap of the 16-bit counters.

Every other scenario lasts a few hundred ticks; state that only goes wrong when a number RECURS (a table keyed by
datagram or message number that is not cleaned, a lap detected the wrong way, a distance taken modulo the wrong ring
size) needs 65535 datagrams in one session.  The near-wrap preset covers the first crossing only.  This module runs the
full stack (real UdpClient, real server loop) for ``ticks`` frames of 1/50 s - one datagram per frame and direction -
under a fixed, fully determined fault script, and records what the applications sent, were handed and were told.

It is not an exploration: each fault script is ONE execution, and the set of scripts is part of the stated bound of the
checks that use it (C04, C05, C07).  The scripts are periodic so that every residue of the datagram number meets every
fate."""
import os
import struct

from mc.world import World
from mc.pair import DeliveryMonitor, app_send
from mpgameserver.connection import ConnectionStatus


class ScriptChooser(object):
    """answers every fate question from a periodic script: the k-th datagram offered to the network (counted per
    execution, both directions) gets fates[k % period] if that entry is set"""

    def __init__(self, script):
        self.script = script       # dict residue -> fate label prefix, plus "period"
        self.k = 0
        self.found = []
        self.steps = 0
        self.outcome = None
        self.info = {}
        self.faults = 0

    def choose(self, kind, options, key=None):
        if kind != "fate":
            return 0
        self.k += 1
        want = self.script.get(self.k % self.script["period"])
        if want is None:
            return 0
        for i, (label, cost) in enumerate(options):
            if label.split(" ")[0] == want:
                self.faults += 1
                return i
        return 0

    def flag(self, oracle, sig, message):
        self.found.append((oracle, sig, message))


SCRIPTS = {
    "clean": {"period": 1},
    # loss, a late copy and a delayed datagram at co-prime periods: every datagram number residue meets each fate
    "lossy": {"period": 23, 3: "drop", 11: "dupdelay6", 17: "delay8", 18: "drop"},
    "bursty": {"period": 101, 5: "drop", 6: "drop", 7: "drop", 8: "drop", 40: "dup", 41: "delay2", 77: "dupdelay2"},
}


def run_lap(params):
    """params: (script name, ticks, guaranteed_every, callback_every, start)   start: "zero" | "near-wrap"
    returns a dict of plain data: violations [(oracle, sig, message)], counts"""
    script, ticks, g_every, cb_every, start = params
    mon = DeliveryMonitor(flag_delivery=False)
    ch = ScriptChooser(SCRIPTS[script])
    w = World(order="cs", latency=1, chooser=ch, monitors=[mon], dt=0.02)
    out = {"violations": [], "params": list(params)}
    sends = {}      # tag -> (sender, data, retry, tick)
    try:
        w.run_until_connected()
        w.run(2)
        if start == "near-wrap":
            w.run(4)
            w.preset_near_wrap()
        w.fates = ["drop", "dup", "delay2", "delay8", "dupdelay2", "dupdelay6"]
        n = 0
        for t in range(ticks):
            for sender in ("c", "s"):
                n += 1
                data = sender.encode() + struct.pack(">I", n)
                if t % g_every == (0 if sender == "c" else g_every // 2):
                    tag = "g%d" % n
                    sends[tag] = (sender, data + b"G", "retry", t)
                    app_send(w, mon, sender, data + b"G", "retry", tag=tag)
                elif t % cb_every == (1 if sender == "c" else cb_every // 2 + 1):
                    tag = "u%d" % n
                    sends[tag] = (sender, data + b"U", "none", t)
                    app_send(w, mon, sender, data + b"U", "none", tag=tag)
                else:
                    app_send(w, mon, sender, data, "none")
            w.tick()
            if w.exceptions:
                break
        w.fates = []
        w.run(400)        # > resend interval, > message timeout, > every delay: everything resolved
        c_ok = w.clients[0].conn is not None and w.clients[0].conn.status == ConnectionStatus.CONNECTED
        s_ok = w.server_conn(0) is not None and w.server_conn(0).status == ConnectionStatus.CONNECTED
        out["connected"] = [c_ok, s_ok]
        out["datagrams"] = len(w.all_sent)
        out["faults"] = ch.faults
        out["messages_sent"] = sum(mon.sent["c"].values()) + sum(mon.sent["s"].values())
        out["messages_delivered"] = sum(mon.delivered["c"].values()) + sum(mon.delivered["s"].values())
        V = out["violations"]
        if w.exceptions:
            V.append(("exception", "exception in %s during the long session" % w.exceptions[0][0], repr(w.exceptions[:2])[:300]))
        if not (c_ok and s_ok):
            V.append(("session-lost", "the session did not survive the long run (script %s)" % script, "client ok=%s server ok=%s at tick %d" % (c_ok, s_ok, w.tickno)))
        # C04: nothing handed over twice, nothing that was never sent
        for recv in ("c", "s"):
            snd = "s" if recv == "c" else "c"
            twice = [d for d, k in mon.delivered[recv].items() if k > mon.sent[snd].get(d, 0) > 0]
            fab = [d for d in mon.delivered[recv] if mon.sent[snd].get(d, 0) == 0]
            if twice:
                V.append(("at-most-once", "long session: payload delivered more often than sent",
                          "%d payloads, first %r (message #%d of %s)" % (len(twice), twice[0], struct.unpack(">I", twice[0][1:5])[0], snd)))
            if fab:
                V.append(("fabricated", "long session: delivered payload was never sent", "%d payloads, first %r" % (len(fab), fab[0][:20])))
        # C05 / C07
        lost_g, cb_bad, true_undelivered = [], [], []
        for tag, (sender, data, retry, t) in sends.items():
            recv = "s" if sender == "c" else "c"
            cbs = [s for s, _ in mon.callbacks.get(tag, [])]
            got = mon.delivered[recv].get(data, 0)
            if retry == "retry" and got < 1:
                lost_g.append((tag, t))
            if len(cbs) != 1 or (retry == "retry" and cbs != [True]):
                cb_bad.append((tag, t, retry, cbs[:4]))
            if cbs and cbs[0] is True and got < 1:
                true_undelivered.append((tag, t, retry))
        if c_ok and s_ok:
            if lost_g:
                V.append(("long-session-guaranteed-lost", "long session: guaranteed message never delivered",
                          "%d of %d, first %r (queued at tick %d)" % (len(lost_g), sum(1 for v in sends.values() if v[2] == "retry"), lost_g[0][0], lost_g[0][1])))
            if cb_bad:
                V.append(("exactly-once", "long session: callback did not fire exactly once (or a guaranteed send was told False)",
                          "%d sends, first %r" % (len(cb_bad), cb_bad[0])))
        if true_undelivered:
            V.append(("true-before-delivery", "long session: callback(True) but the peer application never got the message",
                      "%d sends, first %r" % (len(true_undelivered), true_undelivered[0])))
        out["callbacks_checked"] = len(sends)
    finally:
        w.close()
    return out


# ---------------------------------------------------------------------------
# used by the checks: the laps run in worker processes of their own, beside the explorations of the check

ORACLES = {
    "C04": ("at-most-once", "fabricated"),
    "C05": ("long-session-guaranteed-lost", "session-lost", "exception"),
    "C07": ("exactly-once", "true-before-delivery"),
}


def lap_params(tier):
    if tier == "quick":
        return [("lossy", 66500, 50, 97, "zero")]
    return [("lossy", 66500, 50, 97, "zero"), ("bursty", 66500, 50, 97, "zero"), ("clean", 66500, 7, 3, "zero"), ("lossy", 132000, 31, 64, "near-wrap")]


def start(tier):
    """returns a handle; the laps run in worker processes of their own.  The pool is created and all its workers are forked
    HERE, in the calling (main) thread, before the check starts its own pools: nothing ever forks from a second thread"""
    import concurrent.futures as cf
    import multiprocessing
    from mc import core
    params = lap_params(tier)
    ex = cf.ProcessPoolExecutor(len(params), mp_context=multiprocessing.get_context("fork"), initializer=core._pool_init,
                                initargs=("mc.lap", "run_lap", (), True))
    futs = [ex.submit(core._pool_call, p) for p in params]
    return ex, futs, params


def collect(handle, prop):
    """-> (violations as core.Violation list, coverage dict)"""
    from mc import core
    ex, futs, params = handle
    res = []
    try:
        for f, p in zip(futs, params):
            try:
                r = f.result(timeout=float(os.environ.get("VERIF_ITEM_TIMEOUT", "1500")))
                if isinstance(r, core._Crash):
                    core.JOB_CRASHES.append(r.text)
                else:
                    res.append(r)
            except Exception as e:
                raise RuntimeError("HARNESS-ERROR: the long-session run %r did not finish: %r" % (p, e))
    finally:
        ex.shutdown(wait=False, cancel_futures=True)
    out = []
    for r in res:
        for oracle, sig, msg in r["violations"]:
            if oracle in ORACLES[prop]:
                out.append(core.Violation(oracle, sig, {"lap": r["params"]}, "%s | lap params=%r" % (msg, r["params"])))
    cov = {"executions": len(res), "scripts": [r["params"] for r in res], "datagrams": sum(r.get("datagrams", 0) for r in res),
           "faults_injected": sum(r.get("faults", 0) for r in res), "messages_sent": sum(r.get("messages_sent", 0) for r in res),
           "messages_delivered": sum(r.get("messages_delivered", 0) for r in res), "callbacks_checked": sum(r.get("callbacks_checked", 0) for r in res),
           "note": "each script is ONE fully determined execution across more than a lap of the 16-bit numbers; not an exploration"}
    return out, cov


def replay(witness, prop):
    from mc import core
    r = run_lap(tuple(witness["lap"]))
    return [core.Violation(o, s, witness, m) for o, s, m in r["violations"] if o in ORACLES[prop]]
